//! Generic execution of library operations over every container kind.
//! No expected values are computed here: the functions run the library and return
//! what it answered.
use crate::content::Placed;
use fast_image_resize as fir;
use fir::images::*;
use fir::pixels;
use fir::{
    CpuExtensions, Filter, FilterType, IntoImageView, IntoImageViewMut, MulDiv, PixelComponentMapper,
    PixelTrait, PixelType, ResizeAlg, ResizeOptions, Resizer,
};
use serde_json::Value;
use std::sync::atomic::{AtomicU64, Ordering};

/// Parameter of the custom kernels (plain `fn` pointers cannot capture). Process-global, so that
/// the rayon worker that runs the resize sees the value the case asked for.
pub struct FParam(AtomicU64);
impl FParam {
    pub fn get(&self) -> f64 {
        f64::from_bits(self.0.load(Ordering::SeqCst))
    }
    pub fn set(&self, v: f64) {
        self.0.store(v.to_bits(), Ordering::SeqCst)
    }
}
pub static FPARAM: FParam = FParam(AtomicU64::new(0));

// ---- custom kernels (plain fn pointers; parameter through a thread local) ----

fn k_lobes(x: f64) -> f64 {
    // (1 + 2a) on the centre tap, -a on the two neighbours: sum 1, sum |w| = 1 + 4a
    let a = FPARAM.get();
    let x = x.abs();
    if x < 0.5 {
        1.0 + 2.0 * a
    } else if x < 1.5 {
        -a
    } else {
        0.0
    }
}

fn k_sinc(mut x: f64) -> f64 {
    if x == 0.0 {
        1.0
    } else {
        x *= std::f64::consts::PI;
        x.sin() / x
    }
}

fn k_lanczos4(x: f64) -> f64 {
    if (-4.0..4.0).contains(&x) {
        k_sinc(x) * k_sinc(x / 4.)
    } else {
        0.0
    }
}

fn k_tent_wide(x: f64) -> f64 {
    // non-negative tent of parametrised half width (support given separately)
    let a = FPARAM.get().max(0.25);
    let x = x.abs();
    if x < a {
        1.0 - x / a
    } else {
        0.0
    }
}

fn k_zero(_x: f64) -> f64 {
    0.0
}

fn k_neg(x: f64) -> f64 {
    if x.abs() < 1.0 {
        -1.0
    } else {
        0.0
    }
}

pub fn parse_filter(name: &str, support: f64) -> FilterType {
    match name {
        "Box" => FilterType::Box,
        "Bilinear" => FilterType::Bilinear,
        "Hamming" => FilterType::Hamming,
        "CatmullRom" => FilterType::CatmullRom,
        "Mitchell" => FilterType::Mitchell,
        "Gaussian" => FilterType::Gaussian,
        "Lanczos3" => FilterType::Lanczos3,
        "c_lobes" => FilterType::Custom(Filter::new("c_lobes", k_lobes, support).unwrap()),
        "c_lanczos4" => FilterType::Custom(Filter::new("c_lanczos4", k_lanczos4, 4.0).unwrap()),
        "c_tent" => FilterType::Custom(Filter::new("c_tent", k_tent_wide, support).unwrap()),
        "c_zero" => FilterType::Custom(Filter::new("c_zero", k_zero, support).unwrap()),
        "c_neg" => FilterType::Custom(Filter::new("c_neg", k_neg, support).unwrap()),
        _ => panic!("harness: unknown filter {name}"),
    }
}

pub fn parse_cpu(s: &str) -> CpuExtensions {
    match s {
        "none" => CpuExtensions::None,
        "sse4" => CpuExtensions::Sse4_1,
        "avx2" => CpuExtensions::Avx2,
        _ => panic!("harness: unknown cpu {s}"),
    }
}

/// f64 from the case encoding: {"q":Q,"n":N} = N/Q exactly, or a string tag, or a plain number.
pub fn parse_f64(v: &Value) -> f64 {
    if let Some(s) = v.as_str() {
        return match s {
            "nan" => f64::NAN,
            "inf" => f64::INFINITY,
            "-inf" => f64::NEG_INFINITY,
            "-0" => -0.0,
            "denorm" => f64::from_bits(1),
            "-denorm" => -f64::from_bits(1),
            "eps" => f64::EPSILON,
            "max" => f64::MAX,
            "-max" => f64::MIN,
            _ => {
                if let Some(hex) = s.strip_prefix("bits:") {
                    f64::from_bits(u64::from_str_radix(hex, 16).unwrap())
                } else {
                    panic!("harness: bad f64 tag {s}")
                }
            }
        };
    }
    if let Some(o) = v.as_object() {
        let n = o["n"].as_i64().unwrap() as f64;
        let q = o["q"].as_i64().unwrap() as f64;
        return n / q;
    }
    v.as_f64().expect("harness: f64")
}

fn parse_alg(o: &Value) -> ResizeAlg {
    let filter = o.get("filter").and_then(|f| f.as_str()).unwrap_or("Lanczos3");
    let support = o.get("support").map(parse_f64).unwrap_or(1.5);
    let ft = parse_filter(filter, support);
    match o.get("alg").and_then(|a| a.as_str()).unwrap_or("conv") {
        "nearest" => ResizeAlg::Nearest,
        "conv" => ResizeAlg::Convolution(ft),
        "interp" => ResizeAlg::Interpolation(ft),
        "ss" => ResizeAlg::SuperSampling(ft, o.get("m").and_then(|m| m.as_u64()).unwrap_or(2) as u8),
        a => panic!("harness: unknown alg {a}"),
    }
}

/// Applies a recorded sequence of builder calls (a behaviour of spec/Options.tla) to `ResizeOptions::new()`.
fn build_options(steps: &[Value]) -> ResizeOptions {
    let mut opt = ResizeOptions::new();
    for s in steps {
        opt = match s.get("op").and_then(|o| o.as_str()).unwrap_or("") {
            "new" => ResizeOptions::new(),
            "default" => ResizeOptions::default(),
            "alg" => opt.resize_alg(parse_alg(s)),
            "alpha" => opt.use_alpha(s["v"].as_bool().unwrap()),
            "crop" => {
                let a = s["v"].as_array().unwrap();
                opt.crop(parse_f64(&a[0]), parse_f64(&a[1]), parse_f64(&a[2]), parse_f64(&a[3]))
            }
            "fit" => {
                let a = s["v"].as_array().unwrap();
                if a.is_empty() {
                    opt.fit_into_destination(None)
                } else {
                    opt.fit_into_destination(Some((parse_f64(&a[0]), parse_f64(&a[1]))))
                }
            }
            o => panic!("harness: unknown builder step {o}"),
        };
    }
    opt
}

pub fn parse_options(o: &Value) -> ResizeOptions {
    FPARAM.set(o.get("fparam").map(parse_f64).unwrap_or(0.0));
    if let Some(steps) = o.get("builder").and_then(|b| b.as_array()) {
        return build_options(steps);
    }
    let mut opt = ResizeOptions::new();
    let alg = parse_alg(o);
    opt = opt.resize_alg(alg);
    if let Some(a) = o.get("alpha").and_then(|a| a.as_bool()) {
        opt = opt.use_alpha(a);
    }
    if let Some(c) = o.get("crop") {
        if let Some(arr) = c.as_array() {
            opt = opt.crop(
                parse_f64(&arr[0]),
                parse_f64(&arr[1]),
                parse_f64(&arr[2]),
                parse_f64(&arr[3]),
            );
        }
    }
    if let Some(c) = o.get("fit") {
        if c.is_null() {
            opt = opt.fit_into_destination(None);
        } else {
            let arr = c.as_array().unwrap();
            opt = opt.fit_into_destination(Some((parse_f64(&arr[0]), parse_f64(&arr[1]))));
        }
    }
    opt
}

pub enum Op<'a> {
    Resize(&'a mut Resizer, Option<&'a ResizeOptions>),
    Mul(&'a MulDiv),
    Div(&'a MulDiv),
    MapF(&'a PixelComponentMapper),
    MapB(&'a PixelComponentMapper),
    Convert,
}

fn r<E: std::fmt::Debug>(x: Result<(), E>) -> String {
    match x {
        Ok(()) => "ok".to_string(),
        Err(e) => format!("err:{:?}", e),
    }
}

pub fn run2(op: &mut Op, s: &impl IntoImageView, d: &mut impl IntoImageViewMut) -> String {
    match op {
        Op::Resize(rz, opt) => r(rz.resize(s, d, *opt)),
        Op::Mul(md) => r(md.multiply_alpha(s, d)),
        Op::Div(md) => r(md.divide_alpha(s, d)),
        Op::MapF(m) => r(m.forward_map(s, d)),
        Op::MapB(m) => r(m.backward_map(s, d)),
        Op::Convert => r(fir::change_type_of_pixel_components(s, d)),
    }
}

pub fn run1(op: &mut Op, d: &mut impl IntoImageViewMut) -> String {
    match op {
        Op::Mul(md) => r(md.multiply_alpha_inplace(d)),
        Op::Div(md) => r(md.divide_alpha_inplace(d)),
        Op::MapF(m) => r(m.forward_map_inplace(d)),
        Op::MapB(m) => r(m.backward_map_inplace(d)),
        _ => panic!("harness: op has no in-place form"),
    }
}

pub fn run2_typed<P: PixelTrait>(
    op: &mut Op,
    s: &impl fir::ImageView<Pixel = P>,
    d: &mut impl fir::ImageViewMut<Pixel = P>,
) -> String {
    match op {
        Op::Resize(rz, opt) => r(rz.resize_typed(s, d, *opt)),
        Op::Mul(md) => r(md.multiply_alpha_typed(s, d)),
        Op::Div(md) => r(md.divide_alpha_typed(s, d)),
        _ => panic!("harness: op has no typed two-image form"),
    }
}

pub fn run1_typed<P: PixelTrait>(op: &mut Op, d: &mut impl fir::ImageViewMut<Pixel = P>) -> String {
    match op {
        Op::Mul(md) => r(md.multiply_alpha_inplace_typed(d)),
        Op::Div(md) => r(md.divide_alpha_inplace_typed(d)),
        _ => panic!("harness: op has no typed in-place form"),
    }
}

fn halves(pad: [u32; 4]) -> ([u32; 4], [u32; 4]) {
    let o = [pad[0] / 2, pad[1] / 2, pad[2] / 2, pad[3] / 2];
    let i = [pad[0] - o[0], pad[1] - o[1], pad[2] - o[2], pad[3] - o[3]];
    (o, i)
}

/// Builds the destination container of the dynamic API and runs `$body` with `$d: &mut impl IntoImageViewMut`.
macro_rules! with_dst_dyn {
    ($dp:expr, $d:ident, $body:block) => {{
        let dp: &mut Placed = $dp;
        let (pt, pw, ph, w, h) = (dp.pt, dp.pw, dp.ph, dp.w, dp.h);
        let pad = dp.lay.pad;
        match dp.lay.kind.as_str() {
            "image" => {
                let v = dp.buf.as_slice().to_vec();
                let mut img = Image::from_vec_u8(pw, ph, v, pt).expect("harness: dst image");
                let res = {
                    let $d = &mut img;
                    $body
                };
                dp.buf.as_mut_slice().copy_from_slice(img.buffer());
                res
            }
            "slice" => {
                let mut img =
                    Image::from_slice_u8(pw, ph, dp.buf.as_mut_slice(), pt).expect("harness: dst slice");
                let $d = &mut img;
                $body
            }
            "crop_mut" => {
                let mut parent =
                    Image::from_slice_u8(pw, ph, dp.buf.as_mut_slice(), pt).expect("harness: dst parent");
                let mut c = CroppedImageMut::new(&mut parent, pad[0], pad[1], w, h)
                    .expect("harness: dst crop_mut");
                let $d = &mut c;
                $body
            }
            "nested_mut" => {
                let (o, i) = halves(pad);
                let mut parent =
                    Image::from_slice_u8(pw, ph, dp.buf.as_mut_slice(), pt).expect("harness: dst parent");
                let mut outer = CroppedImageMut::new(
                    &mut parent,
                    o[0],
                    o[1],
                    pw - o[0] - o[2],
                    ph - o[1] - o[3],
                )
                .expect("harness: dst outer");
                let mut c = CroppedImageMut::new(&mut outer, i[0], i[1], w, h).expect("harness: dst inner");
                let $d = &mut c;
                $body
            }
            k => panic!("harness: dst kind {k} not available in the dynamic API"),
        }
    }};
}

/// Same for the source.
macro_rules! with_src_dyn {
    ($sp:expr, $s:ident, $body:block) => {{
        let sp: &mut Placed = $sp;
        let (pt, pw, ph, w, h) = (sp.pt, sp.pw, sp.ph, sp.w, sp.h);
        let pad = sp.lay.pad;
        match sp.lay.kind.as_str() {
            "image" => {
                let v = sp.buf.as_slice().to_vec();
                let img = Image::from_vec_u8(pw, ph, v, pt).expect("harness: src image");
                let $s = &img;
                $body
            }
            "slice" => {
                let img =
                    Image::from_slice_u8(pw, ph, sp.buf.as_mut_slice(), pt).expect("harness: src slice");
                let $s = &img;
                $body
            }
            "image_ref" => {
                let img = ImageRef::new(pw, ph, sp.buf.as_slice(), pt).expect("harness: src ref");
                let $s = &img;
                $body
            }
            "crop" => {
                let parent =
                    Image::from_slice_u8(pw, ph, sp.buf.as_mut_slice(), pt).expect("harness: src parent");
                let c = CroppedImage::new(&parent, pad[0], pad[1], w, h).expect("harness: src crop");
                let $s = &c;
                $body
            }
            "crop_ref" => {
                let parent = ImageRef::new(pw, ph, sp.buf.as_slice(), pt).expect("harness: src parent");
                let c = CroppedImage::new(&parent, pad[0], pad[1], w, h).expect("harness: src crop");
                let $s = &c;
                $body
            }
            "nested" => {
                let (o, i) = halves(pad);
                let parent = ImageRef::new(pw, ph, sp.buf.as_slice(), pt).expect("harness: src parent");
                let outer =
                    CroppedImage::new(&parent, o[0], o[1], pw - o[0] - o[2], ph - o[1] - o[3])
                        .expect("harness: src outer");
                let c = CroppedImage::new(&outer, i[0], i[1], w, h).expect("harness: src inner");
                let $s = &c;
                $body
            }
            k => panic!("harness: src kind {k} not available in the dynamic API"),
        }
    }};
}

pub fn is_typed_kind(k: &str) -> bool {
    k.starts_with("typed")
}

/// Two-image operation through the dynamic API for the supported (source, destination) view pairs.
pub fn exec2_dyn(op: &mut Op, sp: &mut Placed, dp: &mut Placed) -> String {
    let sk = sp.lay.kind.clone();
    let dk = dp.lay.kind.clone();
    let s_class = match sk.as_str() {
        "image" | "slice" | "image_ref" => 0,
        "crop" | "crop_ref" => 1,
        _ => 2,
    };
    let d_class = match dk.as_str() {
        "image" | "slice" => 0,
        "crop_mut" => 1,
        _ => 2,
    };
    // keep the number of monomorphised view pairs bounded
    assert!(
        (s_class < 2 && d_class < 2) || (s_class == 2 && d_class == 2),
        "harness: unsupported container pair {sk}/{dk}"
    );
    if s_class == 2 {
        // nested / nested_mut
        let (pt, pw, ph, w, h) = (sp.pt, sp.pw, sp.ph, sp.w, sp.h);
        let (o, i) = halves(sp.lay.pad);
        let parent = ImageRef::new(pw, ph, sp.buf.as_slice(), pt).expect("harness: src parent");
        let outer = CroppedImage::new(&parent, o[0], o[1], pw - o[0] - o[2], ph - o[1] - o[3])
            .expect("harness: src outer");
        let c = CroppedImage::new(&outer, i[0], i[1], w, h).expect("harness: src inner");
        let (dpt, dpw, dph, dw, dh) = (dp.pt, dp.pw, dp.ph, dp.w, dp.h);
        let (o2, i2) = halves(dp.lay.pad);
        let mut dparent =
            Image::from_slice_u8(dpw, dph, dp.buf.as_mut_slice(), dpt).expect("harness: dst parent");
        let mut douter = CroppedImageMut::new(
            &mut dparent,
            o2[0],
            o2[1],
            dpw - o2[0] - o2[2],
            dph - o2[1] - o2[3],
        )
        .expect("harness: dst outer");
        let mut dc = CroppedImageMut::new(&mut douter, i2[0], i2[1], dw, dh).expect("harness: dst inner");
        return run2(op, &c, &mut dc);
    }
    with_src_dyn!(sp, s, { with_dst_dyn!(dp, d, { run2(op, s, d) }) })
}

pub fn exec1_dyn(op: &mut Op, dp: &mut Placed) -> String {
    with_dst_dyn!(dp, d, { run1(op, d) })
}

macro_rules! with_pt {
    ($pt:expr, $P:ident, $body:block) => {
        match $pt {
            fast_image_resize::PixelType::U8 => {
                type $P = fast_image_resize::pixels::U8;
                $body
            }
            fast_image_resize::PixelType::U8x2 => {
                type $P = fast_image_resize::pixels::U8x2;
                $body
            }
            fast_image_resize::PixelType::U8x3 => {
                type $P = fast_image_resize::pixels::U8x3;
                $body
            }
            fast_image_resize::PixelType::U8x4 => {
                type $P = fast_image_resize::pixels::U8x4;
                $body
            }
            fast_image_resize::PixelType::U16 => {
                type $P = fast_image_resize::pixels::U16;
                $body
            }
            fast_image_resize::PixelType::U16x2 => {
                type $P = fast_image_resize::pixels::U16x2;
                $body
            }
            fast_image_resize::PixelType::U16x3 => {
                type $P = fast_image_resize::pixels::U16x3;
                $body
            }
            fast_image_resize::PixelType::U16x4 => {
                type $P = fast_image_resize::pixels::U16x4;
                $body
            }
            fast_image_resize::PixelType::I32 => {
                type $P = fast_image_resize::pixels::I32;
                $body
            }
            fast_image_resize::PixelType::F32 => {
                type $P = fast_image_resize::pixels::F32;
                $body
            }
            fast_image_resize::PixelType::F32x2 => {
                type $P = fast_image_resize::pixels::F32x2;
                $body
            }
            fast_image_resize::PixelType::F32x3 => {
                type $P = fast_image_resize::pixels::F32x3;
                $body
            }
            fast_image_resize::PixelType::F32x4 => {
                type $P = fast_image_resize::pixels::F32x4;
                $body
            }
            _ => panic!("harness: pixel type"),
        }
    };
}
pub(crate) use with_pt;

fn exec2_typed_p<P: PixelTrait>(op: &mut Op, sp: &mut Placed, dp: &mut Placed) -> String {
    let (pw, ph, w, h) = (sp.pw, sp.ph, sp.w, sp.h);
    let spad = sp.lay.pad;
    let (dpw, dph, dw, dh) = (dp.pw, dp.ph, dp.w, dp.h);
    let dpad = dp.lay.pad;
    let sk = sp.lay.kind.clone();
    let dk = dp.lay.kind.clone();
    match (sk.as_str(), dk.as_str()) {
        ("typed_ref", "typed") => {
            let s = TypedImageRef::<P>::from_buffer(pw, ph, sp.buf.as_slice()).expect("harness: typed_ref");
            let mut d =
                TypedImage::<P>::from_buffer(dpw, dph, dp.buf.as_mut_slice()).expect("harness: typed");
            run2_typed(op, &s, &mut d)
        }
        ("typed", "typed") => {
            let s = TypedImage::<P>::from_buffer(pw, ph, sp.buf.as_mut_slice()).expect("harness: typed src");
            let mut d =
                TypedImage::<P>::from_buffer(dpw, dph, dp.buf.as_mut_slice()).expect("harness: typed");
            run2_typed(op, &s, &mut d)
        }
        ("typed_ref", "typed_crop_mut") => {
            let s = TypedImageRef::<P>::from_buffer(pw, ph, sp.buf.as_slice()).expect("harness: typed_ref");
            let mut dparent =
                TypedImage::<P>::from_buffer(dpw, dph, dp.buf.as_mut_slice()).expect("harness: typed");
            let mut d = TypedCroppedImageMut::from_ref(&mut dparent, dpad[0], dpad[1], dw, dh)
                .expect("harness: typed_crop_mut");
            run2_typed(op, &s, &mut d)
        }
        ("typed_crop", "typed") => {
            let sparent =
                TypedImageRef::<P>::from_buffer(pw, ph, sp.buf.as_slice()).expect("harness: typed_ref");
            let s = TypedCroppedImage::from_ref(&sparent, spad[0], spad[1], w, h).expect("harness: typed_crop");
            let mut d =
                TypedImage::<P>::from_buffer(dpw, dph, dp.buf.as_mut_slice()).expect("harness: typed");
            run2_typed(op, &s, &mut d)
        }
        ("typed_crop", "typed_crop_mut") => {
            let sparent =
                TypedImageRef::<P>::from_buffer(pw, ph, sp.buf.as_slice()).expect("harness: typed_ref");
            let s = TypedCroppedImage::from_ref(&sparent, spad[0], spad[1], w, h).expect("harness: typed_crop");
            let mut dparent =
                TypedImage::<P>::from_buffer(dpw, dph, dp.buf.as_mut_slice()).expect("harness: typed");
            let mut d = TypedCroppedImageMut::from_ref(&mut dparent, dpad[0], dpad[1], dw, dh)
                .expect("harness: typed_crop_mut");
            run2_typed(op, &s, &mut d)
        }
        ("typed_nested", "typed_nested_mut") => {
            let (o, i) = halves(spad);
            let sparent =
                TypedImageRef::<P>::from_buffer(pw, ph, sp.buf.as_slice()).expect("harness: typed_ref");
            let outer =
                TypedCroppedImage::from_ref(&sparent, o[0], o[1], pw - o[0] - o[2], ph - o[1] - o[3])
                    .expect("harness: typed outer");
            let s = TypedCroppedImage::new(outer, i[0], i[1], w, h).expect("harness: typed inner");
            let (o2, i2) = halves(dpad);
            let mut dparent =
                TypedImage::<P>::from_buffer(dpw, dph, dp.buf.as_mut_slice()).expect("harness: typed");
            let douter = TypedCroppedImageMut::from_ref(
                &mut dparent,
                o2[0],
                o2[1],
                dpw - o2[0] - o2[2],
                dph - o2[1] - o2[3],
            )
            .expect("harness: typed douter");
            let mut d = TypedCroppedImageMut::new(douter, i2[0], i2[1], dw, dh).expect("harness: typed dinner");
            run2_typed(op, &s, &mut d)
        }
        _ => panic!("harness: unsupported typed container pair {sk}/{dk}"),
    }
}

pub fn exec2_typed(op: &mut Op, sp: &mut Placed, dp: &mut Placed) -> String {
    assert_eq!(sp.pt, dp.pt, "harness: typed API needs equal pixel types");
    with_pt!(sp.pt, P, { exec2_typed_p::<P>(op, sp, dp) })
}

fn exec1_typed_p<P: PixelTrait>(op: &mut Op, dp: &mut Placed) -> String {
    let (dpw, dph, dw, dh) = (dp.pw, dp.ph, dp.w, dp.h);
    let dpad = dp.lay.pad;
    let dk = dp.lay.kind.clone();
    match dk.as_str() {
        "typed" => {
            let mut d =
                TypedImage::<P>::from_buffer(dpw, dph, dp.buf.as_mut_slice()).expect("harness: typed");
            run1_typed(op, &mut d)
        }
        "typed_crop_mut" => {
            let mut dparent =
                TypedImage::<P>::from_buffer(dpw, dph, dp.buf.as_mut_slice()).expect("harness: typed");
            let mut d = TypedCroppedImageMut::from_ref(&mut dparent, dpad[0], dpad[1], dw, dh)
                .expect("harness: typed_crop_mut");
            run1_typed(op, &mut d)
        }
        _ => panic!("harness: unsupported typed in-place container {dk}"),
    }
}

pub fn exec1_typed(op: &mut Op, dp: &mut Placed) -> String {
    with_pt!(dp.pt, P, { exec1_typed_p::<P>(op, dp) })
}
