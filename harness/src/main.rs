//! firv -- conformance harness: executes cases against the real library and records
//! what happened as ndjson for the TLA+ trace specifications. It computes no expected
//! values; TLC is the judge.
//!
//! usage: firv run <cases.ndjson> <trace.ndjson> <progress-file> [first-line]
#![recursion_limit = "256"]
mod buf;
mod content;
mod exec;
mod misc;
mod pix;

use content::{place, Layout, Placed};
use exec::*;
use fast_image_resize as fir;
use fir::{MulDiv, PixelComponentMapper, Resizer};
use pix::*;
use serde_json::{json, Map, Value};
use std::collections::HashMap;
use std::io::{BufRead, BufReader, BufWriter, Write};
use std::panic::{catch_unwind, AssertUnwindSafe};

pub struct Ctx {
    pub resizers: HashMap<i64, Resizer>,
    /// the back-end the harness last selected on each long-lived resizer (selected again only when a case asks for
    /// another one: state carried across calls, resets and clones is the library's)
    pub selected: HashMap<i64, String>,
    pub pools: HashMap<usize, rayon::ThreadPool>,
    pub srgb: Option<PixelComponentMapper>,
    pub gamma: Option<PixelComponentMapper>,
}

impl Ctx {
    pub fn pool(&mut self, n: usize) -> &rayon::ThreadPool {
        self.pools.entry(n).or_insert_with(|| {
            rayon::ThreadPoolBuilder::new()
                .num_threads(n)
                .build()
                .expect("harness: pool")
        })
    }
}

fn has(log: &Value, what: &str) -> bool {
    log.as_array()
        .map(|a| a.iter().any(|x| x.as_str() == Some(what)))
        .unwrap_or(false)
}

fn spec_of(v: &Value, sentinel: u64, with_content: bool) -> Placed {
    let pt = pt_parse(v["pt"].as_str().expect("pt"));
    let w = v["w"].as_u64().expect("w") as u32;
    let h = v["h"].as_u64().expect("h") as u32;
    let lay = Layout::parse(v.get("lay").unwrap_or(&Value::Null));
    let c = if with_content { v.get("c") } else { None };
    place(pt, w, h, c, lay, sentinel)
}

pub fn panic_msg(e: Box<dyn std::any::Any + Send>) -> String {
    let s = if let Some(s) = e.downcast_ref::<&str>() {
        s.to_string()
    } else if let Some(s) = e.downcast_ref::<String>() {
        s.clone()
    } else {
        "?".to_string()
    };
    let s: String = s.chars().take(160).collect();
    s.replace('"', "'")
}

fn hooks_json(events: Vec<fir::verif::Event>, pt_dst: fir::PixelType, want_imgs: bool) -> (Vec<Value>, Vec<Value>) {
    let mut hooks = vec![];
    let mut imgs = vec![];
    for e in events {
        if let Some(bytes) = e.bytes {
            if want_imgs {
                imgs.push(json!({
                    "k": e.kind, "w": e.vals[0], "h": e.vals[1],
                    "v": bytes_to_vals(pt_dst, &bytes),
                }));
            }
            continue;
        }
        match e.kind {
            "crop_box" | "ss_factor" => {
                let d: Vec<Value> = e
                    .vals
                    .iter()
                    .map(|&b| f64_dyadic(f64::from_bits(b as u64)))
                    .collect();
                hooks.push(json!({"k": e.kind, "t": e.thread, "d": d}));
            }
            _ => hooks.push(json!({"k": e.kind, "t": e.thread, "v": e.vals})),
        }
    }
    (hooks, imgs)
}

/// resize / mul / div / map / convert through any container pair.
fn imgop(ctx: &mut Ctx, case: &Value, out: &mut Map<String, Value>) {
    let op_name = case["op"].as_str().unwrap().to_string();
    let log = case.get("log").cloned().unwrap_or(json!(["dst"]));
    let api = case.get("api").and_then(|a| a.as_str()).unwrap_or("dyn").to_string();
    let cpu = parse_cpu(case.get("cpu").and_then(|c| c.as_str()).unwrap_or("none"));
    let threads = case.get("threads").and_then(|t| t.as_u64()).unwrap_or(1) as usize;
    let inplace = op_name.ends_with("_inplace");
    let sent = case["dst"].get("sent").and_then(|s| s.as_u64()).unwrap_or(0xabcd);
    // in-place operations take their content from "dst.c"
    let mut dp = spec_of(&case["dst"], sent, case["dst"].get("c").is_some());
    let mut sp = if inplace {
        None
    } else {
        Some(spec_of(&case["src"], sent.wrapping_add(77), true))
    };

    if has(&log, "src") {
        if let Some(sp) = &sp {
            out.insert("src".into(), json!(bytes_to_vals(sp.pt, &sp.logical_bytes())));
        }
    }
    if has(&log, "dst0") {
        out.insert("dst0".into(), json!(bytes_to_vals(dp.pt, &dp.logical_bytes())));
    }
    let dst0_bytes = dp.logical_bytes();
    if sp.is_none() && has(&log, "src") {
        // in-place operation: its input is the initial content of the image
        out.insert("src".into(), json!(bytes_to_vals(dp.pt, &dst0_bytes)));
    }
    let src_before = sp.as_ref().map(|s| s.buf.as_slice().to_vec());
    let dst_out_before = dp.outside_bytes();

    let opts = case.get("opt").map(parse_options);
    let rz_slot = case.get("rz").and_then(|r| r.as_i64()).unwrap_or(-1);
    let mut fresh = Resizer::new();
    let mut md = MulDiv::new();
    unsafe {
        md.set_cpu_extensions(cpu);
    }
    if ctx.srgb.is_none() && op_name.starts_with("map") {
        ctx.srgb = Some(fir::create_srgb_mapper());
        ctx.gamma = Some(fir::create_gamma_22_mapper());
    }
    // take what we need out of ctx so the pool borrow does not conflict
    let mut rz_owned: Option<Resizer> = if rz_slot >= 0 {
        Some(ctx.resizers.remove(&rz_slot).unwrap_or_default())
    } else {
        None
    };
    let mapper_name = case.get("mapper").and_then(|m| m.as_str()).unwrap_or("srgb");
    let mapper: Option<PixelComponentMapper> = if op_name.starts_with("map") {
        if mapper_name == "srgb" {
            ctx.srgb.take()
        } else {
            ctx.gamma.take()
        }
    } else {
        None
    };
    let dir = case.get("dir").and_then(|d| d.as_str()).unwrap_or("f").to_string();

    let want_hooks = has(&log, "hooks") || has(&log, "imgs");
    fir::verif::enable(want_hooks, has(&log, "imgs"));

    let ret = {
        let rz: &mut Resizer = match rz_owned.as_mut() {
            Some(r) => r,
            None => &mut fresh,
        };
        let cpu_name = case.get("cpu").and_then(|c| c.as_str()).unwrap_or("none").to_string();
        if rz_slot < 0 || ctx.selected.get(&rz_slot) != Some(&cpu_name) {
            unsafe {
                rz.set_cpu_extensions(cpu);
            }
            if rz_slot >= 0 {
                ctx.selected.insert(rz_slot, cpu_name);
            }
        }
        let default_opts = fir::ResizeOptions::new();
        // "opt_none": the call passes `None` for the options (library defaults)
        let opts_ref = if case.get("opt_none").and_then(|b| b.as_bool()).unwrap_or(false) {
            None
        } else {
            Some(opts.as_ref().unwrap_or(&default_opts))
        };
        let mut op = match op_name.as_str() {
            "resize" => Op::Resize(rz, opts_ref),
            "mul" | "mul_inplace" => Op::Mul(&md),
            "div" | "div_inplace" => Op::Div(&md),
            "map" | "map_inplace" => {
                if dir == "f" {
                    Op::MapF(mapper.as_ref().unwrap())
                } else {
                    Op::MapB(mapper.as_ref().unwrap())
                }
            }
            "convert" => Op::Convert,
            o => panic!("harness: imgop {o}"),
        };
        let pool = ctx.pool(threads);
        let res = catch_unwind(AssertUnwindSafe(|| {
            pool.install(|| match (&mut sp, api.as_str()) {
                (Some(sp), "dyn") => exec2_dyn(&mut op, sp, &mut dp),
                (Some(sp), _) => exec2_typed(&mut op, sp, &mut dp),
                (None, "dyn") => exec1_dyn(&mut op, &mut dp),
                (None, _) => exec1_typed(&mut op, &mut dp),
            })
        }));
        match res {
            Ok(s) => s,
            Err(e) => {
                let m = panic_msg(e);
                if m.starts_with("harness:") {
                    panic!("{}", m);
                }
                format!("panic:{}", m)
            }
        }
    };
    let events = fir::verif::take();
    fir::verif::enable(false, false);

    if let Some(m) = mapper {
        if mapper_name == "srgb" {
            ctx.srgb = Some(m)
        } else {
            ctx.gamma = Some(m)
        }
    }
    if let Some(r) = rz_owned {
        out.insert(
            "bufsize".into(),
            json!(r.size_of_internal_buffers() as i64),
        );
        ctx.resizers.insert(rz_slot, r);
    }

    out.insert("ret".into(), json!(ret));
    if has(&log, "dst") {
        out.insert("dst".into(), json!(bytes_to_vals(dp.pt, &dp.logical_bytes())));
    }
    if has(&log, "dstbits") {
        out.insert("dstbits".into(), json!(bytes_to_f32bits(&dp.logical_bytes())));
    }
    if has(&log, "f32d") {
        if let Some(sp) = &sp {
            out.insert("srcd".into(), f32_dyadic_arrays(&sp.logical_bytes()));
        } else {
            out.insert("srcd".into(), f32_dyadic_arrays(&dst0_bytes));
        }
        out.insert("dstd".into(), f32_dyadic_arrays(&dp.logical_bytes()));
    }
    if has(&log, "digest") {
        out.insert("dig".into(), json!(digest(&dp.logical_bytes())));
    }
    if has(&log, "minmax") {
        // per component plane (min, max) -- a projection, not a judgement
        let vals = bytes_to_vals(dp.pt, &dp.logical_bytes());
        let nc = ncomp(dp.pt);
        let mut mm = vec![];
        for c in 0..nc {
            let plane = vals.iter().skip(c).step_by(nc);
            let mn = plane.clone().min().copied().unwrap_or(0);
            let mx = plane.max().copied().unwrap_or(0);
            mm.push(json!([mn, mx]));
        }
        out.insert("mm".into(), json!(mm));
        if let Some(sp) = &sp {
            let vals = bytes_to_vals(sp.pt, &sp.logical_bytes());
            let nc = ncomp(sp.pt);
            let mut mm = vec![];
            for c in 0..nc {
                let plane = vals.iter().skip(c).step_by(nc);
                let mn = plane.clone().min().copied().unwrap_or(0);
                let mx = plane.max().copied().unwrap_or(0);
                mm.push(json!([mn, mx]));
            }
            out.insert("smm".into(), json!(mm));
        }
    }
    // facts about the bytes the call was not supposed to touch
    let dst_out_after = dp.outside_bytes();
    if has(&log, "outside") {
        out.insert("out0".into(), json!(dst_out_before));
        out.insert("out1".into(), json!(dst_out_after));
    } else {
        out.insert("outd0".into(), json!(digest(&dst_out_before)));
        out.insert("outd1".into(), json!(digest(&dst_out_after)));
        out.insert("outn".into(), json!(dst_out_after.len()));
    }
    if let (Some(sp), Some(before)) = (&sp, &src_before) {
        out.insert("srcd0".into(), json!(digest(before)));
        out.insert("srcd1".into(), json!(digest(sp.buf.as_slice())));
    }
    if want_hooks {
        let (hooks, imgs) = hooks_json(events, dp.pt, has(&log, "imgs"));
        if has(&log, "hooks") {
            out.insert("hooks".into(), json!(hooks));
        }
        if has(&log, "imgs") {
            out.insert("imgs".into(), json!(imgs));
        }
    }
}

fn rz_ctl(ctx: &mut Ctx, case: &Value, out: &mut Map<String, Value>) {
    let slot = case["rz"].as_i64().unwrap();
    match case["what"].as_str().unwrap() {
        "reset" => {
            if let Some(r) = ctx.resizers.get_mut(&slot) {
                r.reset_internal_buffers();
            }
        }
        "clone" => {
            let to = case["to"].as_i64().unwrap();
            let c = ctx.resizers.entry(slot).or_default().clone();
            ctx.resizers.insert(to, c);
            match ctx.selected.get(&slot).cloned() {
                Some(s) => ctx.selected.insert(to, s),
                None => ctx.selected.remove(&to),
            };
        }
        "drop" => {
            ctx.resizers.remove(&slot);
            ctx.selected.remove(&slot);
        }
        "new" => {
            ctx.resizers.insert(slot, Resizer::new());
            ctx.selected.remove(&slot);
        }
        w => panic!("harness: rz_ctl {w}"),
    }
    let sz = ctx
        .resizers
        .get(&slot)
        .map(|r| r.size_of_internal_buffers() as i64)
        .unwrap_or(0);
    out.insert("bufsize".into(), json!(sz));
    out.insert("ret".into(), json!("ok"));
}

fn run_case(ctx: &mut Ctx, case: &Value) -> Value {
    let mut out = Map::new();
    out.insert("id".into(), case["id"].clone());
    out.insert("op".into(), case["op"].clone());
    if let Some(e) = case.get("echo") {
        out.insert("echo".into(), e.clone());
    }
    let op = case["op"].as_str().expect("op").to_string();
    match op.as_str() {
        "resize" | "mul" | "div" | "mul_inplace" | "div_inplace" | "map" | "map_inplace"
        | "convert" => imgop(ctx, case, &mut out),
        "rz_ctl" => rz_ctl(ctx, case, &mut out),
        "view_ctor" => misc::view_ctor(case, &mut out),
        "img_ctor" => misc::img_ctor(case, &mut out),
        "split" => misc::split(case, &mut out),
        "rows" => misc::rows(case, &mut out),
        "container" => misc::container(case, &mut out),
        "filter_new" => misc::filter_new(case, &mut out),
        "fitcrop" => misc::fitcrop(case, &mut out),
        "coeffs" => misc::coeffs(case, &mut out),
        "alpha_table" => misc::alpha_table(ctx, case, &mut out),
        "marker" => {
            out.insert("ret".into(), json!("ok"));
        }
        o => panic!("harness: unknown op {o}"),
    }
    Value::Object(out)
}

fn main() {
    let args: Vec<String> = std::env::args().collect();
    if args.len() < 5 || args[1] != "run" {
        eprintln!("usage: firv run <cases> <trace> <progress> [first-line]");
        std::process::exit(2);
    }
    let first: usize = args.get(5).map(|s| s.parse().unwrap()).unwrap_or(0);
    // panics of the code under test are data; keep stderr quiet unless it is the harness itself
    std::panic::set_hook(Box::new(|info| {
        let s = info.to_string();
        if s.contains("harness:") {
            eprintln!("{}", s);
        }
    }));
    let cases = BufReader::new(std::fs::File::open(&args[2]).expect("cases"));
    let trace = std::fs::OpenOptions::new()
        .create(true)
        .append(true)
        .open(&args[3])
        .expect("trace");
    let mut trace = BufWriter::new(trace);
    let mut ctx = Ctx {
        resizers: HashMap::new(),
        selected: HashMap::new(),
        pools: HashMap::new(),
        srgb: None,
        gamma: None,
    };
    for (n, line) in cases.lines().enumerate() {
        let line = line.expect("line");
        if n < first || line.trim().is_empty() {
            continue;
        }
        let case: Value = serde_json::from_str(&line).expect("harness: case json");
        // progress marker first, so that a crash is attributable
        std::fs::write(&args[4], format!("{}", n)).expect("progress");
        let res = catch_unwind(AssertUnwindSafe(|| run_case(&mut ctx, &case)));
        let rec = match res {
            Ok(v) => v,
            Err(e) => {
                let m = panic_msg(e);
                if m.starts_with("harness:") {
                    eprintln!("harness error at case line {}: {}", n, m);
                    std::process::exit(2);
                }
                let mut o = Map::new();
                o.insert("id".into(), case["id"].clone());
                o.insert("op".into(), case["op"].clone());
                if let Some(e) = case.get("echo") {
                    o.insert("echo".into(), e.clone());
                }
                o.insert("ret".into(), json!(format!("panic:{}", m)));
                Value::Object(o)
            }
        };
        serde_json::to_writer(&mut trace, &rec).unwrap();
        trace.write_all(b"\n").unwrap();
        trace.flush().unwrap();
    }
    std::fs::write(&args[4], "done").expect("progress");
}
