//! Operations that are not image-to-image: constructors, view splitting, crop fitting,
//! coefficient dumps.
use crate::exec::{parse_f64, parse_filter, FPARAM};
use crate::panic_msg;
use crate::pix::*;
use fast_image_resize as fir;
use fir::images::*;
use fir::pixels::U16;
use fir::{ImageView, ImageViewMut, IntoImageView, IntoImageViewMut, PixelType, ResizeOptions, Resizer};
use serde_json::{json, Map, Value};
use std::num::NonZeroU32;
use std::panic::{catch_unwind, AssertUnwindSafe};

fn u32_of(v: &Value) -> u32 {
    v.as_u64().expect("harness: u32") as u32
}

fn tag_parent(pw: u32, ph: u32) -> Vec<U16> {
    let mut v = Vec::with_capacity((pw * ph) as usize);
    for y in 0..ph {
        for x in 0..pw {
            v.push(U16::new((y * 256 + x) as u16));
        }
    }
    v
}

/// Reads what an accepted view exposes: width, height, the length of every row and -- when
/// everything lies inside the parent -- the tags.
fn observe_view<V: ImageView<Pixel = U16>>(v: &V, limit: u32, out: &mut Map<String, Value>) {
    let (w, h) = (v.width(), v.height());
    out.insert("vw".into(), json!(limbs(w as u64)));
    out.insert("vh".into(), json!(limbs(h as u64)));
    if w > limit || h > limit {
        // do not touch the pixels of a view that claims to be larger than its parent
        out.insert("rowskip".into(), json!(1));
        return;
    }
    let mut rows = vec![];
    for row in v.iter_rows(0) {
        let tags: Vec<i64> = row.iter().map(|p| p.0 as i64).collect();
        rows.push(json!(tags));
    }
    out.insert("rows".into(), json!(rows));
}

fn res_str<T, E: std::fmt::Debug>(r: &Result<T, E>) -> String {
    match r {
        Ok(_) => "ok".into(),
        Err(e) => format!("err:{:?}", e),
    }
}

/// C04: cropped-view constructors on a small tagged parent.
pub fn view_ctor(case: &Value, out: &mut Map<String, Value>) {
    let kind = case["kind"].as_str().unwrap();
    let pw = u32_of(&case["pw"]);
    let ph = u32_of(&case["ph"]);
    let b: Vec<u32> = case["box"].as_array().unwrap().iter().map(u32_of).collect();
    let (l, t, w, h) = (b[0], b[1], b[2], b[3]);
    let mut pixels = tag_parent(pw, ph);
    let limit = pw.max(ph);
    let res = catch_unwind(AssertUnwindSafe(|| {
        let mut o = Map::new();
        match kind {
            "TypedCroppedImage::from_ref" => {
                let parent = TypedImageRef::new(pw, ph, &pixels).unwrap();
                let r = TypedCroppedImage::from_ref(&parent, l, t, w, h);
                o.insert("ret".into(), json!(res_str(&r)));
                if let Ok(v) = &r {
                    observe_view(v, limit, &mut o);
                }
            }
            "TypedCroppedImage::new" => {
                let parent = TypedImageRef::new(pw, ph, &pixels).unwrap();
                let r = TypedCroppedImage::new(parent, l, t, w, h);
                o.insert("ret".into(), json!(res_str(&r)));
                if let Ok(v) = &r {
                    observe_view(v, limit, &mut o);
                }
            }
            "TypedCroppedImageMut::from_ref" => {
                let mut parent = TypedImage::from_pixels_slice(pw, ph, &mut pixels).unwrap();
                let r = TypedCroppedImageMut::from_ref(&mut parent, l, t, w, h);
                o.insert("ret".into(), json!(res_str(&r)));
                if let Ok(v) = &r {
                    observe_view(v, limit, &mut o);
                }
            }
            "TypedCroppedImageMut::new" => {
                let parent = TypedImage::from_pixels_slice(pw, ph, &mut pixels).unwrap();
                let r = TypedCroppedImageMut::new(parent, l, t, w, h);
                o.insert("ret".into(), json!(res_str(&r)));
                if let Ok(v) = &r {
                    observe_view(v, limit, &mut o);
                }
            }
            "CroppedImage::new" => {
                let parent = ImageRef::from_pixels(pw, ph, &pixels).unwrap();
                let r = CroppedImage::new(&parent, l, t, w, h);
                o.insert("ret".into(), json!(res_str(&r)));
                if let Ok(c) = &r {
                    o.insert("vw".into(), json!(limbs(IntoImageView::width(c) as u64)));
                    o.insert("vh".into(), json!(limbs(IntoImageView::height(c) as u64)));
                    if w <= limit && h <= limit {
                        let v = c.image_view::<U16>().unwrap();
                        observe_view(&v, limit, &mut o);
                    } else {
                        o.insert("rowskip".into(), json!(1));
                    }
                }
            }
            "CroppedImageMut::new" => {
                let buf: &mut [u8] = unsafe {
                    std::slice::from_raw_parts_mut(pixels.as_mut_ptr() as *mut u8, pixels.len() * 2)
                };
                let mut parent = Image::from_slice_u8(pw, ph, buf, PixelType::U16).unwrap();
                let r = CroppedImageMut::new(&mut parent, l, t, w, h);
                o.insert("ret".into(), json!(res_str(&r)));
                if let Ok(c) = &r {
                    o.insert("vw".into(), json!(limbs(IntoImageView::width(c) as u64)));
                    o.insert("vh".into(), json!(limbs(IntoImageView::height(c) as u64)));
                    if w <= limit && h <= limit {
                        let v = c.image_view::<U16>().unwrap();
                        observe_view(&v, limit, &mut o);
                    } else {
                        o.insert("rowskip".into(), json!(1));
                    }
                }
            }
            k => panic!("harness: view_ctor kind {k}"),
        }
        o
    }));
    match res {
        Ok(o) => out.extend(o),
        Err(e) => {
            let m = panic_msg(e);
            if m.starts_with("harness:") {
                panic!("{}", m);
            }
            out.insert("ret".into(), json!(format!("panic:{}", m)));
        }
    }
}

/// C04: image constructors; the nominal size may be huge, the buffer is what `len` says.
pub fn img_ctor(case: &Value, out: &mut Map<String, Value>) {
    let kind = case["kind"].as_str().unwrap();
    let pt = pt_parse(case["pt"].as_str().unwrap());
    let w = u32_of(&case["w"]);
    let h = u32_of(&case["h"]);
    let len = case["len"].as_u64().unwrap() as usize;
    let off = case.get("off").and_then(|o| o.as_u64()).unwrap_or(0) as usize;
    let mut b = crate::buf::Buf::heap(len, off);
    let res = catch_unwind(AssertUnwindSafe(|| {
        let mut o = Map::new();
        // after an accepted construction: does the object behave (a use that touches no pixel data
        // beyond the buffer when the constructor was right)?
        fn try_use(img: &impl IntoImageView, pt: PixelType, o: &mut Map<String, Value>) {
            let r = catch_unwind(AssertUnwindSafe(|| {
                let mut dst = Image::new(1, 1, pt);
                let mut rz = Resizer::new();
                let opt = ResizeOptions::new().resize_alg(fir::ResizeAlg::Nearest);
                match rz.resize(img, &mut dst, &opt) {
                    Ok(()) => "ok".to_string(),
                    Err(e) => format!("err:{:?}", e),
                }
            }));
            o.insert(
                "use".into(),
                json!(match r {
                    Ok(s) => s,
                    Err(e) => format!("panic:{}", panic_msg(e)),
                }),
            );
        }
        let small = (w as u64) * (h as u64) <= 4096;
        // "use": the accepted object is used in any case (an accepted image must be usable: no panic afterwards)
        let force_use = case.get("use").and_then(|u| u.as_u64()).unwrap_or(0) == 1;
        match kind {
            "Image::from_slice_u8" => {
                let r = Image::from_slice_u8(w, h, b.as_mut_slice(), pt);
                o.insert("ret".into(), json!(res_str(&r)));
                if let Ok(img) = &r {
                    if !small || w == 0 || h == 0 || force_use {
                        try_use(img, pt, &mut o);
                    }
                }
            }
            "Image::from_vec_u8" => {
                // the Vec's own alignment decides; only meaningful with off = 0
                let v = b.as_slice().to_vec();
                let r = Image::from_vec_u8(w, h, v, pt);
                // a Vec<u8> may be arbitrarily aligned: record the error kind only for size
                o.insert("ret".into(), json!(res_str(&r)));
                if let Ok(img) = &r {
                    if !small || w == 0 || h == 0 || force_use {
                        try_use(img, pt, &mut o);
                    }
                }
            }
            "ImageRef::new" => {
                let r = ImageRef::new(w, h, b.as_slice(), pt);
                o.insert("ret".into(), json!(res_str(&r)));
                if let Ok(img) = &r {
                    if !small || w == 0 || h == 0 || force_use {
                        try_use(img, pt, &mut o);
                    }
                }
            }
            "TypedImage::from_buffer" => {
                crate::exec::with_pt!(pt, P, {
                    let r = TypedImage::<P>::from_buffer(w, h, b.as_mut_slice());
                    o.insert("ret".into(), json!(res_str(&r)));
                    if let Ok(img) = &r {
                        o.insert("npix".into(), json!(limbs(img.pixels().len() as u64)));
                    }
                })
            }
            "TypedImageRef::from_buffer" => {
                crate::exec::with_pt!(pt, P, {
                    let r = TypedImageRef::<P>::from_buffer(w, h, b.as_slice());
                    o.insert("ret".into(), json!(res_str(&r)));
                    if let Ok(img) = &r {
                        o.insert("npix".into(), json!(limbs(img.pixels().len() as u64)));
                    }
                })
            }
            k => panic!("harness: img_ctor kind {k}"),
        }
        o
    }));
    match res {
        Ok(o) => out.extend(o),
        Err(e) => {
            let m = panic_msg(e);
            if m.starts_with("harness:") {
                panic!("{}", m);
            }
            out.insert("ret".into(), json!(format!("panic:{}", m)));
        }
    }
}

// ---------------------------------------------------------------- C14 split

fn view_tags<V: ImageView<Pixel = U16>>(v: &V) -> Value {
    let rows: Vec<Value> = v
        .iter_rows(0)
        .map(|row| json!(row.iter().map(|p| p.0 as i64).collect::<Vec<i64>>()))
        .collect();
    json!({"w": v.width(), "h": v.height(), "rows": rows})
}

struct SplitArgs {
    axis_h: bool,
    start: u32,
    size: NonZeroU32,
    parts: NonZeroU32,
}

fn parse_split(v: &Value) -> SplitArgs {
    SplitArgs {
        axis_h: v["axis"].as_str().unwrap() == "h",
        start: u32_of(&v["start"]),
        size: NonZeroU32::new(u32_of(&v["size"])).expect("harness: size 0"),
        parts: NonZeroU32::new(u32_of(&v["parts"])).expect("harness: parts 0"),
    }
}

fn split_leaf<V: ImageView<Pixel = U16>>(v: &V, a: &SplitArgs) -> Value {
    macro_rules! go {
        ($res:expr) => {
            match $res {
                None => json!([]),
                Some(parts) => json!(parts.iter().map(|p| view_tags(p)).collect::<Vec<Value>>()),
            }
        };
    }
    if a.axis_h {
        go!(v.split_by_height(a.start, a.size, a.parts))
    } else {
        go!(v.split_by_width(a.start, a.size, a.parts))
    }
}

fn split_ro<V: ImageView<Pixel = U16>>(v: &V, a: &SplitArgs, second: Option<(&SplitArgs, usize)>) -> Value {
    macro_rules! go {
        ($res:expr) => {
            match $res {
                None => json!([]),
                Some(parts) => {
                    let mut arr = vec![];
                    for (i, p) in parts.iter().enumerate() {
                        let mut o = view_tags(p);
                        if let Some((a2, which)) = second {
                            if which == i {
                                o["sub"] = split_leaf(p, a2);
                            }
                        }
                        arr.push(o);
                    }
                    json!(arr)
                }
            }
        };
    }
    if a.axis_h {
        go!(v.split_by_height(a.start, a.size, a.parts))
    } else {
        go!(v.split_by_width(a.start, a.size, a.parts))
    }
}

fn fill<V: ImageViewMut<Pixel = U16>>(v: &mut V, mark: u16) {
    let w = v.width() as usize;
    for row in v.iter_rows_mut(0) {
        for p in row.iter_mut().take(w) {
            *p = U16::new(mark);
        }
    }
}

fn split_mut<V: ImageViewMut<Pixel = U16>>(v: &mut V, a: &SplitArgs) -> Value {
    macro_rules! go {
        ($res:expr) => {
            match $res {
                None => json!([]),
                Some(mut parts) => {
                    let mut arr = vec![];
                    for (i, p) in parts.iter_mut().enumerate() {
                        arr.push(view_tags(p));
                        // write a per-part mark through the mutable part
                        fill(p, 50000 + i as u16);
                    }
                    json!(arr)
                }
            }
        };
    }
    if a.axis_h {
        go!(v.split_by_height_mut(a.start, a.size, a.parts))
    } else {
        go!(v.split_by_width_mut(a.start, a.size, a.parts))
    }
}

/// second-level marks are 60000 + index so that both levels are distinguishable
fn split_mut2<V: ImageViewMut<Pixel = U16>>(v: &mut V, a: &SplitArgs, a2: &SplitArgs, which: usize) -> Value {
    macro_rules! inner {
        ($p:expr) => {{
            macro_rules! go2 {
                ($res:expr) => {
                    match $res {
                        None => json!([]),
                        Some(mut parts) => {
                            let mut arr = vec![];
                            for (j, q) in parts.iter_mut().enumerate() {
                                arr.push(view_tags(q));
                                fill(q, 60000 + j as u16);
                            }
                            json!(arr)
                        }
                    }
                };
            }
            if a2.axis_h {
                go2!($p.split_by_height_mut(a2.start, a2.size, a2.parts))
            } else {
                go2!($p.split_by_width_mut(a2.start, a2.size, a2.parts))
            }
        }};
    }
    macro_rules! go {
        ($res:expr) => {
            match $res {
                None => json!([]),
                Some(mut parts) => {
                    let mut arr = vec![];
                    for (i, p) in parts.iter_mut().enumerate() {
                        let mut o = view_tags(p);
                        if which == i {
                            let sub = inner!(p);
                            if sub == json!([]) {
                                fill(p, 50000 + i as u16);
                            }
                            o["sub"] = sub;
                        } else {
                            fill(p, 50000 + i as u16);
                        }
                        arr.push(o);
                    }
                    json!(arr)
                }
            }
        };
    }
    if a.axis_h {
        go!(v.split_by_height_mut(a.start, a.size, a.parts))
    } else {
        go!(v.split_by_width_mut(a.start, a.size, a.parts))
    }
}

pub fn split(case: &Value, out: &mut Map<String, Value>) {
    let kind = case["kind"].as_str().unwrap().to_string();
    let pw = u32_of(&case["pw"]);
    let ph = u32_of(&case["ph"]);
    let vb: Vec<u32> = case["view"].as_array().unwrap().iter().map(u32_of).collect();
    let a = parse_split(&case["a"]);
    let second = case.get("b").filter(|b| !b.is_null()).map(|b| (parse_split(b), b["which"].as_u64().unwrap() as usize));
    let is_mut = case["mut"].as_bool().unwrap();
    let mut pixels = tag_parent(pw, ph);
    // nested kinds: the outer crop removes `o` = [l,t,r,b] first
    let ob: Vec<u32> = case
        .get("outer")
        .and_then(|o| o.as_array())
        .map(|a| a.iter().map(u32_of).collect())
        .unwrap_or_else(|| vec![0, 0, 0, 0]);
    let res = catch_unwind(AssertUnwindSafe(|| {
        let sec = second.as_ref().map(|(a2, w)| (a2, *w));
        let r = if !is_mut {
            match kind.as_str() {
                "typed" => {
                    let v = TypedImage::from_pixels_slice(pw, ph, &mut pixels).unwrap();
                    split_ro(&v, &a, sec)
                }
                "typed_ref" => {
                    let v = TypedImageRef::new(pw, ph, &pixels).unwrap();
                    split_ro(&v, &a, sec)
                }
                "typed_crop" => {
                    let p = TypedImageRef::new(pw, ph, &pixels).unwrap();
                    let v = TypedCroppedImage::from_ref(&p, vb[0], vb[1], vb[2], vb[3]).expect("harness: crop");
                    split_ro(&v, &a, sec)
                }
                "typed_crop_mut" => {
                    let p = TypedImage::from_pixels_slice(pw, ph, &mut pixels).unwrap();
                    let v = TypedCroppedImageMut::new(p, vb[0], vb[1], vb[2], vb[3]).expect("harness: crop");
                    split_ro(&v, &a, sec)
                }
                "nested" => {
                    let p = TypedImageRef::new(pw, ph, &pixels).unwrap();
                    let o = TypedCroppedImage::from_ref(&p, ob[0], ob[1], pw - ob[0] - ob[2], ph - ob[1] - ob[3])
                        .expect("harness: outer");
                    let v = TypedCroppedImage::new(o, vb[0], vb[1], vb[2], vb[3]).expect("harness: inner");
                    split_ro(&v, &a, sec)
                }
                k => panic!("harness: split kind {k}"),
            }
        } else {
            macro_rules! run_mut {
                ($v:expr) => {
                    match &second {
                        Some((a2, w)) => split_mut2($v, &a, a2, *w),
                        None => split_mut($v, &a),
                    }
                };
            }
            match kind.as_str() {
                "typed" => {
                    let mut v = TypedImage::from_pixels_slice(pw, ph, &mut pixels).unwrap();
                    run_mut!(&mut v)
                }
                "typed_crop_mut" => {
                    let mut p = TypedImage::from_pixels_slice(pw, ph, &mut pixels).unwrap();
                    let mut v =
                        TypedCroppedImageMut::from_ref(&mut p, vb[0], vb[1], vb[2], vb[3]).expect("harness: crop");
                    run_mut!(&mut v)
                }
                "nested_mut" => {
                    let mut p = TypedImage::from_pixels_slice(pw, ph, &mut pixels).unwrap();
                    let o = TypedCroppedImageMut::from_ref(
                        &mut p,
                        ob[0],
                        ob[1],
                        pw - ob[0] - ob[2],
                        ph - ob[1] - ob[3],
                    )
                    .expect("harness: outer");
                    let mut v = TypedCroppedImageMut::new(o, vb[0], vb[1], vb[2], vb[3]).expect("harness: inner");
                    run_mut!(&mut v)
                }
                k => panic!("harness: split_mut kind {k}"),
            }
        };
        r
    }));
    match res {
        Ok(r) => {
            out.insert("ret".into(), json!("ok"));
            out.insert("parts".into(), r);
            let after: Vec<i64> = pixels.iter().map(|p| p.0 as i64).collect();
            out.insert("parent".into(), json!(after));
        }
        Err(e) => {
            let m = panic_msg(e);
            if m.starts_with("harness:") {
                panic!("{}", m);
            }
            out.insert("ret".into(), json!(format!("panic:{}", m)));
        }
    }
}

// ---------------------------------------------------------------- C15 fit crop

pub fn fitcrop(case: &Value, out: &mut Map<String, Value>) {
    let sw = u32_of(&case["sw"]);
    let sh = u32_of(&case["sh"]);
    let dw = u32_of(&case["dw"]);
    let dh = u32_of(&case["dh"]);
    let centering = case.get("c").filter(|c| !c.is_null()).map(|c| {
        let a = c.as_array().unwrap();
        (parse_f64(&a[0]), parse_f64(&a[1]))
    });
    let res = catch_unwind(AssertUnwindSafe(|| {
        fir::CropBox::fit_src_into_dst_size(sw, sh, dw, dh, centering)
    }));
    match res {
        Ok(b) => {
            out.insert("ret".into(), json!("ok"));
            out.insert(
                "box".into(),
                json!([f64_dyadic(b.left), f64_dyadic(b.top), f64_dyadic(b.width), f64_dyadic(b.height)]),
            );
        }
        Err(e) => {
            out.insert("ret".into(), json!(format!("panic:{}", panic_msg(e))));
        }
    }
}

// ---------------------------------------------------------------- coefficient dumps

pub fn coeffs(case: &Value, out: &mut Map<String, Value>) {
    let in_size = u32_of(&case["in"]);
    let out_size = u32_of(&case["out"]);
    let in0 = parse_f64(&case["in0"]);
    let in1 = parse_f64(&case["in1"]);
    let adaptive = case.get("adaptive").and_then(|a| a.as_bool()).unwrap_or(true);
    let support = case.get("support").map(parse_f64).unwrap_or(1.5);
    FPARAM.set(case.get("fparam").map(parse_f64).unwrap_or(0.0));
    let filter = parse_filter(case["filter"].as_str().unwrap(), support);
    let norm = case.get("norm").and_then(|n| n.as_i64()).unwrap_or(0);
    let want_vals = case.get("vals").and_then(|v| v.as_bool()).unwrap_or(true);
    let res = catch_unwind(AssertUnwindSafe(|| {
        let mut o = Map::new();
        let c = fir::verif::coefficients(in_size, in0, in1, out_size, filter, adaptive);
        o.insert("ws".into(), json!(c.window_size as i64));
        let bounds: Vec<Value> = c.bounds.iter().map(|b| json!([b.0, b.1])).collect();
        o.insert("bounds".into(), json!(bounds));
        if want_vals {
            // only the used part of every window
            let mut wins = vec![];
            for (i, b) in c.bounds.iter().enumerate() {
                let base = i * c.window_size;
                let w: Vec<Value> = c.values[base..base + (b.1 as usize).min(c.window_size)]
                    .iter()
                    .map(|&x| f64_dyadic(x))
                    .collect();
                wins.push(json!(w));
            }
            o.insert("w".into(), json!(wins));
        }
        if norm == 16 || norm == 32 {
            let q = if norm == 16 {
                fir::verif::normalizer16(in_size, in0, in1, out_size, filter, adaptive)
            } else {
                fir::verif::normalizer32(in_size, in0, in1, out_size, filter, adaptive)
            };
            o.insert("p".into(), json!(q.precision as i64));
            let ks: Vec<Value> = q
                .chunks
                .iter()
                .map(|(s, k)| {
                    if norm == 16 {
                        json!({"s": s, "k": k})
                    } else {
                        // i32 coefficients: keep them as signed (lo16, hi) pairs? they fit i32 -> plain
                        json!({"s": s, "k": k})
                    }
                })
                .collect();
            o.insert("ks".into(), json!(ks));
        }
        o
    }));
    match res {
        Ok(o) => {
            out.insert("ret".into(), json!("ok"));
            out.extend(o);
        }
        Err(e) => {
            let m = panic_msg(e);
            if m.starts_with("harness:") {
                panic!("{}", m);
            }
            out.insert("ret".into(), json!(format!("panic:{}", m)));
        }
    }
}

// ---------------------------------------------------------------- C06 exhaustive 8-bit alpha tables

/// Runs multiply/divide over images that contain every (colour, alpha) pair, for every requested row
/// width (so every lane / remainder / tail position), and *projects* the outputs to a table indexed by
/// (colour, alpha): tab[c*256+a] = the output if it was the same everywhere, otherwise the pair is listed
/// in `multi` with all outputs seen. No expected values are computed here.
pub fn alpha_table(ctx: &mut crate::Ctx, case: &Value, out: &mut Map<String, Value>) {
    use crate::content::{Layout, Placed};
    use crate::exec::*;
    let pt = pt_parse(case["pt"].as_str().unwrap());
    let nc = ncomp(pt);
    let what = case["what"].as_str().unwrap().to_string();
    let cpu = parse_cpu(case["cpu"].as_str().unwrap());
    let inplace = case["variant"].as_str().unwrap() == "inplace";
    let api = case["api"].as_str().unwrap().to_string();
    let threads = case.get("threads").and_then(|t| t.as_u64()).unwrap_or(1) as usize;
    let widths: Vec<u32> = case["widths"].as_array().unwrap().iter().map(u32_of).collect();
    let mut md = fir::MulDiv::new();
    unsafe { md.set_cpu_extensions(cpu) };
    let mut tab: Vec<i64> = vec![-1; 65536];
    let mut multi: std::collections::BTreeMap<usize, Vec<i64>> = Default::default();
    let mut atab: Vec<i64> = vec![-1; 256];
    let mut amulti: std::collections::BTreeMap<usize, Vec<i64>> = Default::default();
    let mut rets: Vec<String> = vec![];
    // two arrangements of the pairs per width: 0 = every pair once in (colour, alpha) order; 1 = alpha in RUNS of 1..12
    // equal values (opaque / transparent / other) at every alignment with random colours, so that data-dependent branches
    // of a kernel (a whole vector opaque, a whole vector transparent, mixed) are all taken
    let widths2: Vec<(u32, u32)> = widths.iter().flat_map(|&w| [(w, 0u32), (w, 1u32)]).collect();
    for &(w, arrangement) in &widths2 {
        let h = (65536 + w - 1) / w;
        let n = (w * h) as usize;
        let mut data: Vec<i64> = Vec::with_capacity(n * nc);
        let mut rs: u64 = 0x9E3779B97F4A7C15 ^ (w as u64).wrapping_mul(0xBF58476D1CE4E5B9);
        let mut next = move || {
            rs ^= rs << 13;
            rs ^= rs >> 7;
            rs ^= rs << 17;
            rs
        };
        let mut run_left = 0u64;
        let mut run_alpha = 0i64;
        let mut run_colour = 0u64; // 0 = random colours, 1 = all components zero, 2 = all components maximum
        for i in 0..n {
            let j = i % 65536;
            let (mut c, mut a) = ((j / 256) as i64, (j % 256) as i64);
            if arrangement == 1 {
                if run_left == 0 {
                    let r = next();
                    run_left = 1 + r % 12;
                    run_alpha = match (r >> 8) % 4 {
                        0 | 1 => 255,
                        2 => 0,
                        _ => ((r >> 16) % 256) as i64,
                    };
                    run_colour = (r >> 24) % 4;
                }
                run_left -= 1;
                a = run_alpha;
                c = match run_colour {
                    1 => 0,
                    2 => 255,
                    _ => (next() % 256) as i64,
                };
            }
            if nc == 2 {
                data.push(c);
                data.push(a);
            } else if arrangement == 1 && (run_colour == 1 || run_colour == 2) {
                // transparent black / fully saturated pixels: every component of the run equal
                data.push(c);
                data.push(c);
                data.push(c);
                data.push(a);
            } else {
                data.push(c);
                data.push((c + 85) % 256);
                data.push(255 - c);
                data.push(a);
            }
        }
        let bytes = vals_to_bytes(pt, &data);
        let (sk, dk) = if api == "dyn" { ("image_ref", "slice") } else { ("typed_ref", "typed") };
        let lay = |k: &str| Layout { kind: k.to_string(), pad: [0; 4], extra: 0, guard: 1 };
        let mut dp: Placed = crate::content::place(pt, w, h, None, lay(dk), 0x1234 + w as u64);
        let mut sp: Placed = crate::content::place(pt, w, h, None, lay(sk), 0x4321);
        sp.write_logical(&bytes);
        if inplace {
            dp.write_logical(&bytes);
        }
        let pool = ctx.pool(threads);
        let r = catch_unwind(AssertUnwindSafe(|| {
            pool.install(|| {
                let mut op = if what == "mul" { Op::Mul(&md) } else { Op::Div(&md) };
                match (inplace, api.as_str()) {
                    (false, "dyn") => exec2_dyn(&mut op, &mut sp, &mut dp),
                    (false, _) => exec2_typed(&mut op, &mut sp, &mut dp),
                    (true, "dyn") => exec1_dyn(&mut op, &mut dp),
                    (true, _) => exec1_typed(&mut op, &mut dp),
                }
            })
        }));
        let ret = match r {
            Ok(s) => s,
            Err(e) => {
                let m = panic_msg(e);
                if m.starts_with("harness:") {
                    panic!("{}", m);
                }
                format!("panic:{}", m)
            }
        };
        if !rets.contains(&ret) {
            rets.push(ret.clone());
        }
        if ret != "ok" {
            continue;
        }
        let o = dp.logical_bytes();
        for i in 0..n {
            let a = data[i * nc + nc - 1] as usize;
            for k in 0..nc - 1 {
                let c = data[i * nc + k] as usize;
                let v = o[i * nc + k] as i64;
                let idx = c * 256 + a;
                if tab[idx] == -1 {
                    tab[idx] = v;
                } else if tab[idx] != v {
                    let e = multi.entry(idx).or_insert_with(|| vec![c as i64, a as i64, tab[idx]]);
                    if !e[2..].contains(&v) {
                        e.push(v);
                    }
                }
            }
            let va = o[i * nc + nc - 1] as i64;
            if atab[a] == -1 {
                atab[a] = va;
            } else if atab[a] != va {
                let e = amulti.entry(a).or_insert_with(|| vec![a as i64, atab[a]]);
                if !e[1..].contains(&va) {
                    e.push(va);
                }
            }
        }
    }
    out.insert("ret".into(), json!(if rets.len() == 1 { rets[0].clone() } else { rets.join("|") }));
    out.insert("tab".into(), json!(tab));
    out.insert("multi".into(), json!(multi.values().collect::<Vec<_>>()));
    out.insert("atab".into(), json!(atab));
    out.insert("amulti".into(), json!(amulti.values().collect::<Vec<_>>()));
}

// ---------------------------------------------------------------- row iterators of the view traits (C13 mechanism)

fn rows_json<'a, I: Iterator<Item = &'a [U16]>>(it: I, limit: usize) -> Value {
    let rows: Vec<Value> = it
        .take(limit)
        .map(|row| json!(row.iter().map(|p| p.0 as i64).collect::<Vec<i64>>()))
        .collect();
    json!(rows)
}

fn observe_rows<V: ImageView<Pixel = U16>>(v: &V, calls: &[Value]) -> Vec<Value> {
    let mut out = vec![];
    for c in calls {
        let m = c["m"].as_str().unwrap();
        let o = match m {
            "iter_rows" => rows_json(v.iter_rows(u32_of(&c["start"])), 64),
            "iter_2_rows" => {
                let g: Vec<Value> = v
                    .iter_2_rows(u32_of(&c["start"]), u32_of(&c["max"]))
                    .take(64)
                    .map(|rs| json!(rs.iter().map(|row| row.iter().map(|p| p.0 as i64).collect::<Vec<i64>>()).collect::<Vec<_>>()))
                    .collect();
                json!(g)
            }
            "iter_4_rows" => {
                let g: Vec<Value> = v
                    .iter_4_rows(u32_of(&c["start"]), u32_of(&c["max"]))
                    .take(64)
                    .map(|rs| json!(rs.iter().map(|row| row.iter().map(|p| p.0 as i64).collect::<Vec<i64>>()).collect::<Vec<_>>()))
                    .collect();
                json!(g)
            }
            "step" => rows_json(
                v.iter_rows_with_step(parse_f64(&c["y0"]), parse_f64(&c["step"]), u32_of(&c["max"])),
                256,
            ),
            _ => panic!("harness: rows call {m}"),
        };
        out.push(o);
    }
    out
}

fn observe_rows_mut<V: ImageViewMut<Pixel = U16>>(v: &mut V, calls: &[Value]) -> Vec<Value> {
    let mut out = vec![];
    for c in calls {
        let m = c["m"].as_str().unwrap();
        let o = match m {
            "iter_rows_mut" => {
                let rows: Vec<Value> = v
                    .iter_rows_mut(u32_of(&c["start"]))
                    .take(64)
                    .map(|row| json!(row.iter().map(|p| p.0 as i64).collect::<Vec<i64>>()))
                    .collect();
                json!(rows)
            }
            "iter_2_rows_mut" => {
                let g: Vec<Value> = v
                    .iter_2_rows_mut()
                    .take(64)
                    .map(|rs| json!(rs.iter().map(|row| row.iter().map(|p| p.0 as i64).collect::<Vec<i64>>()).collect::<Vec<_>>()))
                    .collect();
                json!(g)
            }
            "iter_4_rows_mut" => {
                let g: Vec<Value> = v
                    .iter_4_rows_mut()
                    .take(64)
                    .map(|rs| json!(rs.iter().map(|row| row.iter().map(|p| p.0 as i64).collect::<Vec<i64>>()).collect::<Vec<_>>()))
                    .collect();
                json!(g)
            }
            _ => json!(observe_rows(v, std::slice::from_ref(c))[0].clone()),
        };
        out.push(o);
    }
    out
}

/// Reads rows through the public iterators of ImageView / ImageViewMut for every container kind.
pub fn rows(case: &Value, out: &mut Map<String, Value>) {
    let kind = case["kind"].as_str().unwrap().to_string();
    let pw = u32_of(&case["pw"]);
    let ph = u32_of(&case["ph"]);
    let vb: Vec<u32> = case["view"].as_array().unwrap().iter().map(u32_of).collect();
    let ob: Vec<u32> = case
        .get("outer")
        .and_then(|o| o.as_array())
        .map(|a| a.iter().map(u32_of).collect())
        .unwrap_or_else(|| vec![0, 0, 0, 0]);
    let calls: Vec<Value> = case["calls"].as_array().unwrap().clone();
    let mut pixels = tag_parent(pw, ph);
    let res = catch_unwind(AssertUnwindSafe(|| match kind.as_str() {
        "typed" => {
            let mut v = TypedImage::from_pixels_slice(pw, ph, &mut pixels).unwrap();
            observe_rows_mut(&mut v, &calls)
        }
        "typed_ref" => {
            let v = TypedImageRef::new(pw, ph, &pixels).unwrap();
            observe_rows(&v, &calls)
        }
        "typed_crop" => {
            let p = TypedImageRef::new(pw, ph, &pixels).unwrap();
            let v = TypedCroppedImage::from_ref(&p, vb[0], vb[1], vb[2], vb[3]).expect("harness: crop");
            observe_rows(&v, &calls)
        }
        "typed_crop_mut" => {
            let mut p = TypedImage::from_pixels_slice(pw, ph, &mut pixels).unwrap();
            let mut v = TypedCroppedImageMut::from_ref(&mut p, vb[0], vb[1], vb[2], vb[3]).expect("harness: crop");
            observe_rows_mut(&mut v, &calls)
        }
        "nested" => {
            let p = TypedImageRef::new(pw, ph, &pixels).unwrap();
            let o = TypedCroppedImage::from_ref(&p, ob[0], ob[1], pw - ob[0] - ob[2], ph - ob[1] - ob[3]).expect("harness: outer");
            let v = TypedCroppedImage::new(o, vb[0], vb[1], vb[2], vb[3]).expect("harness: inner");
            observe_rows(&v, &calls)
        }
        "nested_mut" => {
            let mut p = TypedImage::from_pixels_slice(pw, ph, &mut pixels).unwrap();
            let o = TypedCroppedImageMut::from_ref(&mut p, ob[0], ob[1], pw - ob[0] - ob[2], ph - ob[1] - ob[3]).expect("harness: outer");
            let mut v = TypedCroppedImageMut::new(o, vb[0], vb[1], vb[2], vb[3]).expect("harness: inner");
            observe_rows_mut(&mut v, &calls)
        }
        k => panic!("harness: rows kind {k}"),
    }));
    match res {
        Ok(r) => {
            out.insert("ret".into(), json!("ok"));
            out.insert("obs".into(), json!(r));
        }
        Err(e) => {
            let m = panic_msg(e);
            if m.starts_with("harness:") {
                panic!("{}", m);
            }
            out.insert("ret".into(), json!(format!("panic:{}", m)));
        }
    }
}

// ---------------------------------------------------------------- Api: container life cycle, typed access, Filter::new

const ALL_TYPES: [PixelType; 13] = [
    PixelType::U8, PixelType::U8x2, PixelType::U8x3, PixelType::U8x4, PixelType::U16, PixelType::U16x2, PixelType::U16x3,
    PixelType::U16x4, PixelType::I32, PixelType::F32, PixelType::F32x2, PixelType::F32x3, PixelType::F32x4,
];

fn typed_access(img: &mut Image) -> (Vec<Value>, Vec<Value>) {
    let (w, h) = (img.width(), img.height());
    let mut ro = Vec::new();
    let mut rw = Vec::new();
    for t in ALL_TYPES {
        crate::exec::with_pt!(t, P, {
            // 1 = a view of exactly the image's size, 0 = None, 2 = a view of another size
            let a = match img.image_view::<P>() {
                Some(v) => if v.width() == w && v.height() == h { 1 } else { 2 },
                None => 0,
            };
            let b = match img.image_view_mut::<P>() {
                Some(v) => if v.width() == w && v.height() == h { 1 } else { 2 },
                None => 0,
            };
            ro.push(json!(a));
            rw.push(json!(b));
        })
    }
    (ro, rw)
}

/// `Image::new` / buffer / copy / into_vec / typed access of an owned and of a borrowed image.
pub fn container(case: &Value, out: &mut Map<String, Value>) {
    let pt = pt_parse(case["pt"].as_str().unwrap());
    let w = u32_of(&case["w"]);
    let h = u32_of(&case["h"]);
    let seed = case.get("seed").and_then(|s| s.as_u64()).unwrap_or(1) as usize;
    let res = catch_unwind(AssertUnwindSafe(|| {
        let mut o = Map::new();
        let mut img = Image::new(w, h, pt);
        o.insert("len".into(), json!(img.buffer().len()));
        o.insert("zero".into(), json!(img.buffer().iter().all(|&b| b == 0) as u8));
        o.insert("dims".into(), json!([img.width(), img.height()]));
        o.insert("ptname".into(), json!(format!("{:?}", img.pixel_type())));
        let pattern: Vec<u8> = (0..img.buffer().len()).map(|i| ((i * 7 + seed) % 251) as u8).collect();
        img.buffer_mut().copy_from_slice(&pattern);
        let mut cp = img.copy();
        o.insert("copy_eq".into(), json!((cp.buffer() == img.buffer() && cp.width() == w && cp.height() == h && cp.pixel_type() == pt) as u8));
        if !pattern.is_empty() {
            cp.buffer_mut()[0] ^= 0xff;
        }
        o.insert("indep".into(), json!((img.buffer() == pattern.as_slice()) as u8));
        let (ro, rw) = typed_access(&mut img);
        o.insert("typed".into(), json!(ro));
        o.insert("typed_mut".into(), json!(rw));
        // a borrowed image over the same bytes answers the same
        let mut backing = crate::buf::Buf::heap(pattern.len(), 0);
        backing.as_mut_slice().copy_from_slice(&pattern);
        match Image::from_slice_u8(w, h, backing.as_mut_slice(), pt) {
            Ok(mut b) => {
                let (ro, rw) = typed_access(&mut b);
                o.insert("btyped".into(), json!(ro));
                o.insert("btyped_mut".into(), json!(rw));
                o.insert("bvec_eq".into(), json!((b.into_vec() == pattern) as u8));
            }
            Err(e) => {
                o.insert("bret".into(), json!(format!("err:{:?}", e)));
            }
        }
        o.insert("vec_eq".into(), json!((img.into_vec() == pattern) as u8));
        o.insert("ret".into(), json!("ok"));
        o
    }));
    match res {
        Ok(o) => out.extend(o),
        Err(e) => {
            out.insert("ret".into(), json!(format!("panic:{}", panic_msg(e))));
        }
    }
}

fn unit_kernel(_: f64) -> f64 {
    1.0
}

/// `Filter::new` with supports of every class.
pub fn filter_new(case: &Value, out: &mut Map<String, Value>) {
    let support = parse_f64(&case["support"]);
    let res = catch_unwind(AssertUnwindSafe(|| match fir::Filter::new("verif", unit_kernel, support) {
        Ok(f) => {
            if f.support() == support && f.name() == "verif" {
                "ok".to_string()
            } else {
                "ok-but-changed".to_string()
            }
        }
        Err(e) => format!("err:{:?}", e),
    }));
    out.insert(
        "ret".into(),
        json!(match res {
            Ok(s) => s,
            Err(e) => format!("panic:{}", panic_msg(e)),
        }),
    );
}
