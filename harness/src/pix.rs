//! Pixel-type descriptors and component <-> integer projections.
//!
//! The harness contains no oracle: these helpers only move numbers between
//! JSON (integers) and the byte buffers handed to the library.
use fast_image_resize::PixelType;

#[derive(Clone, Copy, Debug, PartialEq, Eq)]
pub enum Comp {
    U8,
    U16,
    I32,
    F32,
}

pub const ALL_PT: [PixelType; 13] = [
    PixelType::U8,
    PixelType::U8x2,
    PixelType::U8x3,
    PixelType::U8x4,
    PixelType::U16,
    PixelType::U16x2,
    PixelType::U16x3,
    PixelType::U16x4,
    PixelType::I32,
    PixelType::F32,
    PixelType::F32x2,
    PixelType::F32x3,
    PixelType::F32x4,
];

pub fn pt_name(pt: PixelType) -> &'static str {
    match pt {
        PixelType::U8 => "U8",
        PixelType::U8x2 => "U8x2",
        PixelType::U8x3 => "U8x3",
        PixelType::U8x4 => "U8x4",
        PixelType::U16 => "U16",
        PixelType::U16x2 => "U16x2",
        PixelType::U16x3 => "U16x3",
        PixelType::U16x4 => "U16x4",
        PixelType::I32 => "I32",
        PixelType::F32 => "F32",
        PixelType::F32x2 => "F32x2",
        PixelType::F32x3 => "F32x3",
        PixelType::F32x4 => "F32x4",
        _ => "?",
    }
}

pub fn pt_parse(s: &str) -> PixelType {
    for pt in ALL_PT {
        if pt_name(pt) == s {
            return pt;
        }
    }
    panic!("harness: unknown pixel type {s}");
}

pub fn comp(pt: PixelType) -> Comp {
    match pt {
        PixelType::U8 | PixelType::U8x2 | PixelType::U8x3 | PixelType::U8x4 => Comp::U8,
        PixelType::U16 | PixelType::U16x2 | PixelType::U16x3 | PixelType::U16x4 => Comp::U16,
        PixelType::I32 => Comp::I32,
        _ => Comp::F32,
    }
}

pub fn ncomp(pt: PixelType) -> usize {
    match pt {
        PixelType::U8 | PixelType::U16 | PixelType::I32 | PixelType::F32 => 1,
        PixelType::U8x2 | PixelType::U16x2 | PixelType::F32x2 => 2,
        PixelType::U8x3 | PixelType::U16x3 | PixelType::F32x3 => 3,
        _ => 4,
    }
}

pub fn csize(c: Comp) -> usize {
    match c {
        Comp::U8 => 1,
        Comp::U16 => 2,
        _ => 4,
    }
}

pub fn align(pt: PixelType) -> usize {
    csize(comp(pt))
}

/// Monotone map f32 bits -> i32 ("ordered key"); NaN keeps its (large) magnitude.
pub fn f32_key(bits: u32) -> i64 {
    if bits & 0x8000_0000 != 0 {
        -((bits & 0x7fff_ffff) as i64)
    } else {
        bits as i64
    }
}

/// Component values as the integers the trace carries:
/// u8/u16/i32: the value; f32: ordered key of the bits.
pub fn bytes_to_vals(pt: PixelType, bytes: &[u8]) -> Vec<i64> {
    match comp(pt) {
        Comp::U8 => bytes.iter().map(|&b| b as i64).collect(),
        Comp::U16 => bytes
            .chunks_exact(2)
            .map(|c| u16::from_ne_bytes([c[0], c[1]]) as i64)
            .collect(),
        Comp::I32 => bytes
            .chunks_exact(4)
            .map(|c| i32::from_ne_bytes([c[0], c[1], c[2], c[3]]) as i64)
            .collect(),
        Comp::F32 => bytes
            .chunks_exact(4)
            .map(|c| f32_key(u32::from_ne_bytes([c[0], c[1], c[2], c[3]])))
            .collect(),
    }
}

/// Raw f32 bit patterns (for events that need the exact dyadic value).
pub fn bytes_to_f32bits(bytes: &[u8]) -> Vec<u32> {
    bytes
        .chunks_exact(4)
        .map(|c| u32::from_ne_bytes([c[0], c[1], c[2], c[3]]))
        .collect()
}

/// Inverse direction for case input: u8/u16/i32 values, f32 given as raw bits.
pub fn vals_to_bytes(pt: PixelType, vals: &[i64]) -> Vec<u8> {
    let mut out = Vec::with_capacity(vals.len() * csize(comp(pt)));
    for &v in vals {
        match comp(pt) {
            Comp::U8 => out.push(v as u8),
            Comp::U16 => out.extend_from_slice(&(v as u16).to_ne_bytes()),
            Comp::I32 => out.extend_from_slice(&(v as i32).to_ne_bytes()),
            Comp::F32 => out.extend_from_slice(&(v as u32).to_ne_bytes()),
        }
    }
    out
}

/// u32/usize/u64 -> little-endian 16-bit limbs (TLC's JSON reader wraps at 2^31).
pub fn limbs(v: u64) -> Vec<i64> {
    let mut out = vec![];
    let mut v = v;
    loop {
        out.push((v & 0xffff) as i64);
        v >>= 16;
        if v == 0 {
            break;
        }
    }
    out
}

/// f64 -> exact dyadic record {s, m: 4 digits base 2^14 (little endian), e}: value = s * m * 2^e.
/// Non-finite values become {"nf": "nan" | "inf" | "-inf"}.
pub fn f64_dyadic(v: f64) -> serde_json::Value {
    use serde_json::json;
    if v.is_nan() {
        return json!({"nf": "nan"});
    }
    if v.is_infinite() {
        return json!({"nf": if v > 0.0 { "inf" } else { "-inf" }});
    }
    let bits = v.to_bits();
    let sign = if bits >> 63 != 0 { -1 } else { 1 };
    let exp = ((bits >> 52) & 0x7ff) as i64;
    let frac = bits & ((1u64 << 52) - 1);
    let (mut m, mut e) = if exp == 0 {
        (frac, -1074i64)
    } else {
        (frac | (1u64 << 52), exp - 1075)
    };
    if m == 0 {
        return json!({"s": 0, "m": [0, 0, 0, 0], "e": 0});
    }
    while m & 1 == 0 {
        m >>= 1;
        e += 1;
    }
    let d: Vec<i64> = (0..4).map(|i| ((m >> (14 * i)) & 0x3fff) as i64).collect();
    json!({"s": sign, "m": d, "e": e})
}

/// Two 31-bit digests of a byte string (FNV-1a 64 split) -- used only where the
/// property demands exact equality of very large images.
pub fn digest(bytes: &[u8]) -> [i64; 2] {
    let mut h: u64 = 0xcbf29ce484222325;
    for &b in bytes {
        h ^= b as u64;
        h = h.wrapping_mul(0x100000001b3);
    }
    [(h & 0x7fff_ffff) as i64, ((h >> 32) & 0x7fff_ffff) as i64]
}

/// f32 components as three parallel arrays: value = s * m * 2^e (s in {-1,0,1});
/// non-finite values are marked by s = 2 (NaN), 3 (+inf), -3 (-inf).
pub fn f32_dyadic_arrays(bytes: &[u8]) -> serde_json::Value {
    let mut s = vec![];
    let mut m = vec![];
    let mut e = vec![];
    for bits in bytes_to_f32bits(bytes) {
        let sign: i64 = if bits >> 31 != 0 { -1 } else { 1 };
        let exp = ((bits >> 23) & 0xff) as i64;
        let frac = (bits & 0x7f_ffff) as i64;
        if exp == 255 {
            s.push(if frac != 0 { 2 } else { 3 * sign });
            m.push(0);
            e.push(0);
        } else if exp == 0 {
            s.push(if frac == 0 { 0 } else { sign });
            m.push(frac);
            e.push(if frac == 0 { 0 } else { -149 });
        } else {
            s.push(sign);
            m.push(frac | (1 << 23));
            e.push(exp - 150);
        }
    }
    serde_json::json!({"s": s, "m": m, "e": e})
}
