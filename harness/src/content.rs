//! Building the byte buffers for a case: a parent grid with an optional surrounding
//! border / spare capacity, and the logical image placed inside it.
use crate::buf::Buf;
use crate::pix::*;
use fast_image_resize::PixelType;
use serde_json::Value;

pub struct Rng(pub u64);

impl Rng {
    pub fn next(&mut self) -> u64 {
        self.0 = self.0.wrapping_add(0x9e3779b97f4a7c15);
        let mut z = self.0;
        z = (z ^ (z >> 30)).wrapping_mul(0xbf58476d1ce4e5b9);
        z = (z ^ (z >> 27)).wrapping_mul(0x94d049bb133111eb);
        z ^ (z >> 31)
    }
    pub fn range(&mut self, lo: i64, hi: i64) -> i64 {
        if hi <= lo {
            return lo;
        }
        let span = (hi - lo) as u64 + 1;
        lo + (self.next() % span) as i64
    }
}

#[derive(Clone, Debug)]
pub struct Layout {
    pub kind: String,
    pub pad: [u32; 4], // left, top, right, bottom
    pub extra: usize,  // spare pixels after the parent grid
    pub guard: i64,    // 0 none, 1 flush after, 2 flush before
}

impl Layout {
    pub fn parse(v: &Value) -> Layout {
        let kind = v
            .get("k")
            .and_then(|k| k.as_str())
            .unwrap_or("image")
            .to_string();
        let mut pad = [0u32; 4];
        if let Some(p) = v.get("pad").and_then(|p| p.as_array()) {
            for i in 0..4 {
                pad[i] = p[i].as_u64().unwrap() as u32;
            }
        }
        Layout {
            kind,
            pad,
            extra: v.get("extra").and_then(|e| e.as_u64()).unwrap_or(0) as usize,
            guard: v.get("guard").and_then(|e| e.as_i64()).unwrap_or(0),
        }
    }
}

pub struct Placed {
    pub pt: PixelType,
    pub w: u32,
    pub h: u32,
    pub lay: Layout,
    pub pw: u32,
    pub ph: u32,
    pub buf: Buf,
}

impl Placed {
    pub fn psize(&self) -> usize {
        self.pt.size()
    }

    /// Bytes of the logical rectangle, row-major.
    pub fn logical_bytes(&self) -> Vec<u8> {
        let ps = self.psize();
        let mut out = Vec::with_capacity(self.w as usize * self.h as usize * ps);
        let b = self.buf.as_slice();
        for y in 0..self.h as usize {
            let row = (y + self.lay.pad[1] as usize) * self.pw as usize + self.lay.pad[0] as usize;
            out.extend_from_slice(&b[row * ps..(row + self.w as usize) * ps]);
        }
        out
    }

    /// Bytes outside the logical rectangle (surroundings and spare capacity), in buffer order.
    pub fn outside_bytes(&self) -> Vec<u8> {
        let ps = self.psize();
        let b = self.buf.as_slice();
        let mut out = Vec::new();
        let (l, t) = (self.lay.pad[0] as usize, self.lay.pad[1] as usize);
        let pw = self.pw as usize;
        for y in 0..self.ph as usize {
            let inside_row = y >= t && y < t + self.h as usize;
            for x in 0..pw {
                if inside_row && x >= l && x < l + self.w as usize {
                    continue;
                }
                let i = (y * pw + x) * ps;
                out.extend_from_slice(&b[i..i + ps]);
            }
        }
        out.extend_from_slice(&b[pw * self.ph as usize * ps..]);
        out
    }

    pub fn write_logical(&mut self, bytes: &[u8]) {
        let ps = self.psize();
        let (w, pw) = (self.w as usize, self.pw as usize);
        let (l, t) = (self.lay.pad[0] as usize, self.lay.pad[1] as usize);
        let b = self.buf.as_mut_slice();
        for y in 0..self.h as usize {
            let row = (y + t) * pw + l;
            b[row * ps..(row + w) * ps].copy_from_slice(&bytes[y * w * ps..(y + 1) * w * ps]);
        }
    }
}

/// Generates the component values (as case-input integers: f32 as raw bits) of a w x h image.
pub fn gen_vals(pt: PixelType, w: u32, h: u32, c: &Value) -> Vec<i64> {
    let n = w as usize * h as usize * ncomp(pt);
    let g = c.get("g").and_then(|g| g.as_str()).unwrap_or("rand");
    match g {
        "data" => {
            let v: Vec<i64> = c["v"]
                .as_array()
                .expect("data.v")
                .iter()
                .map(|x| x.as_i64().expect("int"))
                .collect();
            assert_eq!(v.len(), n, "harness: data length");
            v
        }
        "const" => {
            let v: Vec<i64> = c["v"]
                .as_array()
                .expect("const.v")
                .iter()
                .map(|x| x.as_i64().expect("int"))
                .collect();
            (0..n).map(|i| v[i % ncomp(pt) % v.len()]).collect()
        }
        _ => {
            let mut rng = Rng(c.get("seed").and_then(|s| s.as_u64()).unwrap_or(1));
            match comp(pt) {
                Comp::F32 => {
                    let lo = c.get("flo").and_then(|x| x.as_f64()).unwrap_or(0.0);
                    let hi = c.get("fhi").and_then(|x| x.as_f64()).unwrap_or(1.0);
                    (0..n)
                        .map(|_| {
                            let u = (rng.next() >> 40) as f64 / (1u64 << 24) as f64;
                            ((lo + (hi - lo) * u) as f32).to_bits() as i64
                        })
                        .collect()
                }
                cm => {
                    let (dlo, dhi) = match cm {
                        Comp::U8 => (0, 255),
                        Comp::U16 => (0, 65535),
                        _ => (i32::MIN as i64, i32::MAX as i64),
                    };
                    let lo = c.get("lo").and_then(|x| x.as_i64()).unwrap_or(dlo);
                    let hi = c.get("hi").and_then(|x| x.as_i64()).unwrap_or(dhi);
                    // optional per-component override of alpha (last component)
                    let alo = c.get("alo").and_then(|x| x.as_i64());
                    let ahi = c.get("ahi").and_then(|x| x.as_i64());
                    let nc = ncomp(pt);
                    (0..n)
                        .map(|i| {
                            if i % nc == nc - 1 && alo.is_some() {
                                rng.range(alo.unwrap(), ahi.unwrap_or(alo.unwrap()))
                            } else {
                                rng.range(lo, hi)
                            }
                        })
                        .collect()
                }
            }
        }
    }
}

/// Allocates the parent buffer, fills everything with a sentinel pattern and (if given)
/// places the generated logical image.
pub fn place(pt: PixelType, w: u32, h: u32, content: Option<&Value>, lay: Layout, sentinel: u64) -> Placed {
    let pw = w + lay.pad[0] + lay.pad[2];
    let ph = h + lay.pad[1] + lay.pad[3];
    let ps = pt.size();
    let len = (pw as usize * ph as usize + lay.extra) * ps;
    let mut buf = Buf::new(len, lay.guard);
    {
        let b = buf.as_mut_slice();
        let mut rng = Rng(sentinel ^ 0x5eed);
        // sentinel pattern: for float types keep the bytes finite-looking (exponent byte fixed)
        let cs = csize(comp(pt));
        for (i, x) in b.iter_mut().enumerate() {
            let r = (rng.next() >> 33) as u8;
            *x = if comp(pt) == Comp::F32 && i % cs == 3 {
                0x3e | (r & 1)
            } else if comp(pt) == Comp::I32 && i % cs == 3 {
                r & 0x3f
            } else {
                r
            };
        }
    }
    let mut p = Placed {
        pt,
        w,
        h,
        lay,
        pw,
        ph,
        buf,
    };
    if let Some(c) = content {
        let vals = gen_vals(pt, w, h, c);
        let bytes = vals_to_bytes(pt, &vals);
        p.write_logical(&bytes);
    }
    p
}
