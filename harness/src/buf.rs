//! Byte buffers handed to the library: plain (4-byte aligned, optional byte offset)
//! or mmap'ed flush against PROT_NONE guard pages.
use std::ptr;

pub struct Buf {
    kind: Kind,
    start: *mut u8,
    len: usize,
}

enum Kind {
    Heap(#[allow(dead_code)] Vec<u64>),
    Map { base: *mut u8, total: usize },
}

unsafe impl Send for Buf {}

const PAGE: usize = 4096;

impl Buf {
    /// Plain buffer; `offset` shifts the start by that many bytes from an 8-byte boundary.
    pub fn heap(len: usize, offset: usize) -> Buf {
        let words = (len + offset + 15) / 8 + 1;
        let mut v = vec![0u64; words];
        let start = unsafe { (v.as_mut_ptr() as *mut u8).add(offset) };
        Buf {
            kind: Kind::Heap(v),
            start,
            len,
        }
    }

    /// Buffer whose last byte is immediately followed by an inaccessible page (`after`)
    /// or whose first byte is immediately preceded by one (`!after`); both sides are guarded
    /// by PROT_NONE pages, the flush side is exact.
    pub fn guarded(len: usize, after: bool) -> Buf {
        let data_pages = (len + PAGE - 1) / PAGE + 1;
        let total = (data_pages + 2) * PAGE;
        unsafe {
            let base = libc::mmap(
                ptr::null_mut(),
                total,
                libc::PROT_READ | libc::PROT_WRITE,
                libc::MAP_PRIVATE | libc::MAP_ANONYMOUS,
                -1,
                0,
            );
            assert!(base != libc::MAP_FAILED, "harness: mmap failed");
            let base = base as *mut u8;
            libc::mprotect(base as *mut _, PAGE, libc::PROT_NONE);
            libc::mprotect(
                base.add((data_pages + 1) * PAGE) as *mut _,
                PAGE,
                libc::PROT_NONE,
            );
            let start = if after {
                base.add((data_pages + 1) * PAGE - len)
            } else {
                base.add(PAGE)
            };
            Buf {
                kind: Kind::Map { base, total },
                start,
                len,
            }
        }
    }

    pub fn new(len: usize, guard: i64) -> Buf {
        match guard {
            1 => Buf::guarded(len, true),
            2 => Buf::guarded(len, false),
            _ => Buf::heap(len, 0),
        }
    }

    pub fn as_slice(&self) -> &[u8] {
        unsafe { std::slice::from_raw_parts(self.start, self.len) }
    }

    pub fn as_mut_slice(&mut self) -> &mut [u8] {
        unsafe { std::slice::from_raw_parts_mut(self.start, self.len) }
    }
}

impl Drop for Buf {
    fn drop(&mut self) {
        if let Kind::Map { base, total } = self.kind {
            unsafe {
                libc::munmap(base as *mut _, total);
            }
        }
    }
}
