#!/usr/bin/env python3
"""finalmatrix.py run <lane> <nlanes> : every stored seed (seeded/S*/patch.diff) against the checks of the properties it is
   said to break, on a scratch worktree of /repo's HEAD (tools/mutrun.py); logs in .work/final_<seed>.log
   finalmatrix.py report : seeded/RESULTS.md + `detected_by` of every meta.json from those logs"""
import glob, json, os, re, subprocess, sys
V = os.path.dirname(os.path.dirname(os.path.abspath(__file__)))


def seeds():
    out = []
    for d in sorted(glob.glob(V + "/seeded/S*")):
        meta = json.load(open(d + "/meta.json"))
        props = sorted(set(re.findall(r"C\d\d", meta.get("breaks_property", "") or os.path.basename(d))))
        first = re.search(r"C\d\d", os.path.basename(d)).group(0)
        props = ([first] + [p for p in props if p != first])[:3]
        out.append((os.path.basename(d), d, meta, props))
    return out


def run(lane, nlanes):
    for i, (name, d, meta, props) in enumerate(seeds()):
        if i % nlanes != lane:
            continue
        sid = name.split("-")[0]
        log = V + "/.work/final_%s.log" % sid
        if os.path.exists(log) and "MUT " in open(log).read():
            continue
        if os.environ.get("FINAL_PRIMARY_ONLY"):
            props = props[:1]
        with open(log, "w") as f:
            subprocess.run([V + "/tools/mutrun.py", "F" + sid, d + "/patch.diff"] + props, stdout=f, stderr=subprocess.STDOUT, cwd=V)


def parse(log):
    rows = []
    if not os.path.exists(log):
        return rows
    cur = None
    for line in open(log):
        m = re.match(r"MUT (\S+) (C\d+) rc=(\d+) (\d+)s ?(.*)", line)
        if m:
            cur = {"prop": m.group(2), "rc": int(m.group(3)), "secs": int(m.group(4)), "what": ""}
            rows.append(cur)
            continue
        m2 = re.match(r"\s+violation: (\{.*)", line)
        if m2 and cur is not None and not cur["what"]:
            w = re.search(r'"what": "([^"]+)"', m2.group(1))
            cur["what"] = w.group(1) if w else "?"
    return rows


def report():
    lines = ["# Seeded changes and the checks that catch them", "",
             "Each change was written by an independent sub-agent that saw only the property text and a scratch worktree; it compiles, passes the",
             "repository's test suite, and its demonstration fails with the change and passes without it (confirmed with tools/confirm_seed.sh).",
             "The table is produced by tools/finalmatrix.py: every patch applied to a scratch worktree of /repo's HEAD, the quick checks run against it.", "",
             "| seed | breaks | change | quick checks run -> result |", "|---|---|---|---|"]
    for (name, d, meta, props) in seeds():
        sid = name.split("-")[0]
        rows = parse(V + "/.work/final_%s.log" % sid)
        res = []
        for r in rows:
            res.append("%s: %s" % (r["prop"], ("**caught** (%s)" % r["what"]) if r["rc"] == 1 else ("not caught" if r["rc"] == 0 else "tool error")))
        meta["detected_by"] = [r["prop"] for r in rows if r["rc"] == 1]
        meta["checked_against"] = [r["prop"] for r in rows]
        json.dump(meta, open(d + "/meta.json", "w"), indent=1)
        lines.append("| %s | %s | %s | %s |" % (name, meta.get("breaks_property", ""), meta.get("change", "").replace("|", "/"), "; ".join(res) or "(not run)"))
    # reverse-fix mutants: the repairs of DESIGN 9.5 taken out again (tools/mutrun.py <name> -R<commit> / seeded/revfix/*.diff)
    lines += ["", "## Repairs taken out again", "",
              "Each `fix:` commit of /repo reverted on a scratch worktree (for two of them a hand-made reverse patch, `seeded/revfix/`); logs `.work/rf_<commit>.log`.", "",
              "| reverted fix | quick checks run -> result |", "|---|---|"]
    for f in sorted(glob.glob(V + "/.work/rf_*.log")):
        rows = parse(f)
        res = ["%s: %s" % (r["prop"], ("**caught** (%s)" % r["what"]) if r["rc"] == 1 else ("not caught" if r["rc"] == 0 else "tool error")) for r in rows]
        lines.append("| %s | %s |" % (os.path.basename(f)[3:-4], "; ".join(res)))
    open(V + "/seeded/RESULTS.md", "w").write("\n".join(lines) + "\n")
    print("\n".join(lines[8:]))


if __name__ == "__main__":
    if sys.argv[1] == "run":
        run(int(sys.argv[2]), int(sys.argv[3]))
    else:
        report()
