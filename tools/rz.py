"""Shared construction of resize cases and of the trace lines TraceResize.tla consumes.

Nothing here judges anything: cases are built, harness records are re-shaped line by line
(hook value arrays -> named fields, one line per hook), and TLC validates the result."""
import json, os, struct
import vlib

PT = {
    "U8": dict(ps=1, alpha=0, u8=1, nc=1, comp="u8", max=255),
    "U8x2": dict(ps=2, alpha=1, u8=1, nc=2, comp="u8", max=255),
    "U8x3": dict(ps=3, alpha=0, u8=1, nc=3, comp="u8", max=255),
    "U8x4": dict(ps=4, alpha=1, u8=1, nc=4, comp="u8", max=255),
    "U16": dict(ps=2, alpha=0, u8=0, nc=1, comp="u16", max=65535),
    "U16x2": dict(ps=4, alpha=1, u8=0, nc=2, comp="u16", max=65535),
    "U16x3": dict(ps=6, alpha=0, u8=0, nc=3, comp="u16", max=65535),
    "U16x4": dict(ps=8, alpha=1, u8=0, nc=4, comp="u16", max=65535),
    "I32": dict(ps=4, alpha=0, u8=0, nc=1, comp="i32", max=2 ** 31 - 1),
    "F32": dict(ps=4, alpha=0, u8=0, nc=1, comp="f32", max=0),
    "F32x2": dict(ps=8, alpha=1, u8=0, nc=2, comp="f32", max=0),
    "F32x3": dict(ps=12, alpha=0, u8=0, nc=3, comp="f32", max=0),
    "F32x4": dict(ps=16, alpha=1, u8=0, nc=4, comp="f32", max=0),
}
ALL_PT = list(PT)
FILTERS = {"Box": (1, 2), "Bilinear": (1, 1), "Hamming": (1, 1), "CatmullRom": (2, 1), "Mitchell": (2, 1),
           "Gaussian": (3, 1), "Lanczos3": (3, 1), "c_lanczos4": (4, 1)}
BUILTIN = ["Box", "Bilinear", "Hamming", "CatmullRom", "Mitchell", "Gaussian", "Lanczos3"]
CPUS = ["none", "sse4", "avx2"]


def pick(n, salt, seq):
    """decorrelated deterministic choice: element of seq selected by a mix of the case counter and a salt
    (plain `seq[n % len(seq)]` aliases with other modulo choices on the same counter and leaves combinations uncovered)"""
    z = (n * 0x9E3779B97F4A7C15 + salt * 0xBF58476D1CE4E5B9 + 0x94D049BB133111EB) & 0xFFFFFFFFFFFFFFFF
    z ^= z >> 30
    z = (z * 0xBF58476D1CE4E5B9) & 0xFFFFFFFFFFFFFFFF
    z ^= z >> 27
    z = (z * 0x94D049BB133111EB) & 0xFFFFFFFFFFFFFFFF
    z ^= z >> 31
    return seq[z % len(seq)]


def f32bits(x):
    return struct.unpack("<I", struct.pack("<f", x))[0]


def f32key(x):
    b = f32bits(x)
    return -(b & 0x7fffffff) if b & 0x80000000 else b


def resize_case(pt, sw, sh, dw, dh, alg="conv", flt="Lanczos3", m=2, alpha=True, box=None, Q=1, cpu="none",
                rz=-1, src_c=None, src_lay=None, dst_lay=None, api="dyn", threads=1, log=("dst",), chk=("pipeline",),
                g=None, echo=None, sent=0xabcd, dst_c=None, support=None):
    """box: crop in units of 1/Q (l, t, w, h) or None for the whole source."""
    info = PT[pt]
    opt = {"alg": alg, "alpha": bool(alpha)}
    if alg != "nearest":
        opt["filter"] = flt
    if alg == "ss":
        opt["m"] = m
    if support is not None:
        opt["support"] = {"n": support[0], "q": support[1]}
    if box is not None:
        opt["crop"] = [{"n": v, "q": Q} for v in box]
    src = {"pt": pt, "w": sw, "h": sh, "c": src_c or {"g": "rand", "seed": 1}}
    if src_lay:
        src["lay"] = src_lay
    dst = {"pt": pt, "w": dw, "h": dh, "sent": sent}
    if dst_lay:
        dst["lay"] = dst_lay
    if dst_c:
        dst["c"] = dst_c
    lg = list(log)
    if ("pipeline" in chk or "threads" in chk or "clip" in chk) and "hooks" not in lg:
        lg.append("hooks")
    case = {"op": "resize", "api": api, "cpu": cpu, "threads": threads, "rz": rz, "src": src, "dst": dst, "opt": opt, "log": lg}
    sbox = list(box) if box is not None else [0, 0, sw * Q, sh * Q]
    sn, sd = support if support is not None else FILTERS.get(flt, (1, 1))
    spec = {"args": {"ps": info["ps"], "alphaType": info["alpha"], "u8": info["u8"], "sw": sw, "sh": sh, "dw": dw, "dh": dh,
                     "box": sbox, "Q": Q, "alg": alg, "m": m if alg == "ss" else 1, "useAlpha": 1 if alpha else 0,
                     "sn": sn, "sd": sd, "cpu": CPUS.index(cpu)},
            "rz": rz, "chk": list(chk), "nc": info["nc"], "pt": pt, "cpu": cpu, "flt": flt}
    if g is not None:
        spec["g"] = g
    if echo:
        spec.update(echo)
    case["_spec"] = spec
    return case


DUMMY_ARGS = {"ps": 1, "alphaType": 0, "u8": 1, "sw": 1, "sh": 1, "dw": 1, "dh": 1, "box": [0, 0, 1, 1], "Q": 1,
              "alg": "nearest", "m": 1, "useAlpha": 0, "sn": 1, "sd": 1}


def img_case(op, dst_pt, dw, dh, src_pt=None, sw=None, sh=None, src_c=None, dst_c=None, src_lay=None, dst_lay=None,
             api="dyn", cpu="none", threads=1, log=("dst",), chk=("ret_ok",), g=None, echo=None, sent=0xabcd,
             mapper=None, direction=None):
    """mul / div / mul_inplace / div_inplace / map / map_inplace / convert through the generic executor."""
    case = {"op": op, "api": api, "cpu": cpu, "threads": threads,
            "dst": {"pt": dst_pt, "w": dw, "h": dh, "sent": sent}, "log": list(log) + (["hooks"] if "threads" in chk else [])}
    if dst_lay:
        case["dst"]["lay"] = dst_lay
    if dst_c:
        case["dst"]["c"] = dst_c
    if not op.endswith("_inplace"):
        case["src"] = {"pt": src_pt or dst_pt, "w": dw if sw is None else sw, "h": dh if sh is None else sh,
                       "c": src_c or {"g": "rand", "seed": 1}}
        if src_lay:
            case["src"]["lay"] = src_lay
    if mapper:
        case["mapper"] = mapper
        case["dir"] = direction or "f"
    spec = {"args": dict(DUMMY_ARGS), "rz": -1, "chk": list(chk), "nc": PT[dst_pt]["nc"], "pt": dst_pt, "cpu": cpu,
            "flt": "-", "op": op}
    if g is not None:
        spec["g"] = g
    if echo:
        spec.update(echo)
    case["_spec"] = spec
    return case


def random_resize_kw(rng, maxdim=40, algs=None, filters=None, Q=4, pts=None):
    """seeded random resize arguments (thorough tiers): any pixel type, sizes up to maxdim, any valid crop on the 1/Q grid
    (integer, fractional, sub-pixel, edge-flush), any algorithm / filter / alpha flag / back-end"""
    pt = rng.choice(pts or ALL_PT)
    small = rng.random() < 0.3
    lim = 6 if small else maxdim
    sw, sh = rng.randint(1, lim), rng.randint(1, lim)
    dw, dh = rng.randint(1, lim), rng.randint(1, lim)
    alg, m = rng.choice(algs or [("nearest", 1), ("conv", 1), ("conv", 1), ("interp", 1), ("ss", 1), ("ss", 2), ("ss", 3)])
    flt = rng.choice(filters or BUILTIN)
    r = rng.random()
    if r < 0.3:
        box = None
    elif r < 0.5:          # integer box
        l, t = rng.randint(0, sw - 1), rng.randint(0, sh - 1)
        box = (Q * l, Q * t, Q * rng.randint(1, sw - l), Q * rng.randint(1, sh - t))
    elif r < 0.6:          # flush against the right / bottom edge, sub-pixel size
        bw, bh = rng.randint(1, min(Q * sw, 2 * Q)), rng.randint(1, min(Q * sh, 2 * Q))
        box = (Q * sw - bw, Q * sh - bh, bw, bh)
    else:                  # any box on the grid
        l, t = rng.randint(0, Q * sw - 1), rng.randint(0, Q * sh - 1)
        box = (l, t, rng.randint(1, Q * sw - l), rng.randint(1, Q * sh - t))
    if rng.random() < 0.15 and box is not None:      # one axis unchanged: single-pass plans
        if rng.random() < 0.5:
            dw = max(1, box[2] // Q)
            box = (Q * (box[0] // Q), box[1], Q * dw, box[3]) if Q * (box[0] // Q) + Q * dw <= Q * sw else box
        else:
            dh = max(1, box[3] // Q)
            box = (box[0], Q * (box[1] // Q), box[2], Q * dh) if Q * (box[1] // Q) + Q * dh <= Q * sh else box
    return dict(pt=pt, sw=sw, sh=sh, dw=dw, dh=dh, alg=alg, flt=flt, m=m, alpha=rng.random() < 0.5, box=box, Q=Q, cpu=rng.choice(CPUS))


def runs_pixels(pt, npix, rng, maxrun=12):
    """pixels of an alpha type in runs of 1..12: transparent black (all components 0), fully saturated (all components max),
    opaque with random colours, transparent with random colours, a random alpha with random colours, pure noise -- so that whole
    SIMD vectors that are all zero / all opaque / all transparent occur at every alignment next to mixed ones"""
    info = PT[pt]
    nc = info["nc"]
    isf = info["comp"] == "f32"
    mx = 1.0 if isf else info["max"]
    col = (lambda: rng.random()) if isf else (lambda: rng.randint(0, mx))
    out, left, mode, a = [], 0, 0, 0
    for _ in range(npix):
        if left == 0:
            left, mode = rng.randint(1, maxrun), rng.choice([0, 1, 2, 2, 3, 4, 5])
            a = col()
        left -= 1
        if mode == 0:
            px = [0.0 if isf else 0] * nc
        elif mode == 1:
            px = [mx] * nc
        elif mode == 2:
            px = [col() for _ in range(nc - 1)] + [mx]
        elif mode == 3:
            px = [col() for _ in range(nc - 1)] + [0.0 if isf else 0]
        elif mode == 4:
            px = [col() for _ in range(nc - 1)] + [a]
        else:
            px = [col() for _ in range(nc)]
        out += [f32bits(x) for x in px] if isf else px
    return out


def ctl_case(rz, what, to=None):
    c = {"op": "rz_ctl", "rz": rz, "what": what, "_spec": {"ctl": 1, "rz": rz, "what": what}}
    if to is not None:
        c["to"] = to
        c["_spec"]["to"] = to
    return c


ALG_CODE = {0: "nearest", 1: "conv", 2: "interp"}
THREAD_HOOKS = ("split_plan", "split_bands", "band_begin", "band_end")


def hook_line(cid, h):
    k = h["k"]
    o = {"ev": "hook", "id": cid, "k": k}
    v = h.get("v", [])
    if k == "call":
        o.update(sw=v[1], sh=v[2], dw=v[3], dh=v[4], pt=v[0])
    elif k == "crop_box":
        o["d"] = h["d"]
    elif k == "ss_factor":
        pass
    elif k == "dispatch":
        code = v[0]
        if code % 256 == 3:
            o.update(alg="ss", m=code // 256)
        else:
            o.update(alg=ALG_CODE[code], m=1)
        o["alpha"] = v[1] == 1
        o["cpu"] = v[2] if len(v) > 2 else -1
    elif k in ("premul", "divide"):
        o["cpu"] = v[0] if v else -1
    elif k == "temp":
        o.update(w=v[0], h=v[1], ps=v[2], len0=v[3], len1=v[4], head=v[5])
    elif k == "alpha_take":
        o["len"] = v[0]
    elif k == "ss_take":
        o.update(len=v[0], tw=v[1], th=v[2])
    elif k == "nearest":
        o.update(sw=v[0], sh=v[1], dw=v[2], dh=v[3])
    elif k == "conv_begin":
        o.update(cw=v[0], ch=v[1], dw=v[2], dh=v[3], adaptive=v[4] == 1)
    elif k == "conv_plan":
        o.update(h=v[0] == 1, hws=v[1], hf=v[2], hl=v[3], v=v[4] == 1, vws=v[5], vf=v[6], vl=v[7])
    elif k == "pass":
        o.update(axis=v[0], off=v[1], w=v[2], h=v[3])
    elif k == "clip_range":
        sat = lambda x: max(-2 ** 31, min(2 ** 31 - 1, x))      # TLC's JSON reader wraps beyond 32 bits
        o.update(lo=sat(v[0]), hi=sat(v[1]))
    return o


def thread_line(cid, h):
    k = h["k"]
    v = h.get("v", [])
    o = {"ev": "thr", "id": cid, "k": k, "t": h.get("t", -1)}
    if k == "split_plan":
        o.update(axis="h" if v[0] == 0 else "v", nimg=v[1], w=v[2], h=v[3], threads=v[4], maxp=v[5], off=v[6])
    elif k == "split_bands":
        o["sizes"] = v
    else:
        o.update(w=v[0], h=v[1])
    return o


def retk(ret):
    return ret.split(":")[0] if ret else "none"


def write_trace(path, cases, recs, keep=None):
    """One 'begin' line, one line per pipeline hook and one 'end' line per resize case;
    one 'ctl' line per resizer-control case. `keep`: fields of the record copied to the end line."""
    n = 0
    with open(path, "w") as f:
        for c, r in zip(cases, recs):
            sp = c["_spec"]
            if sp.get("ctl"):
                line = {"ev": "ctl", "id": c["id"], "rz": sp["rz"], "what": sp["what"]}
                if "to" in sp:
                    line["to"] = sp["to"]
                f.write(json.dumps(line, separators=(",", ":")) + "\n")
                n += 1
                continue
            b = dict(sp)
            b.update(ev="begin", id=c["id"])
            f.write(json.dumps(b, separators=(",", ":")) + "\n")
            n += 1
            for h in r.get("hooks", []):
                if h["k"] in THREAD_HOOKS:
                    if "threads" in sp["chk"]:
                        f.write(json.dumps(thread_line(c["id"], h), separators=(",", ":")) + "\n")
                        n += 1
                    continue
                if "pipeline" not in sp["chk"] and not (h["k"] == "clip_range" and "clip" in sp["chk"]):
                    continue
                f.write(json.dumps(hook_line(c["id"], h), separators=(",", ":")) + "\n")
                n += 1
            e = {"ev": "end", "id": c["id"], "ret": r.get("ret", "none"), "retk": retk(r.get("ret"))}
            for k in ("src", "dst", "dst0", "dig", "outd0", "outd1", "srcd0", "srcd1", "mm", "smm", "bufsize", "imgs"):
                if k in r and (keep is None or k in keep):
                    e[k] = r[k]
            f.write(json.dumps(e, separators=(",", ":")) + "\n")
            n += 1
    return n


def strip(case):
    """what the harness gets (the spec part stays on the Python side / goes into the trace)"""
    return {k: v for k, v in case.items() if k != "_spec"}


def run_resize_trace(res, name, cases, profile="release", keep=None, module="TraceResize", xmx="12g"):
    """cases -> harness -> flattened trace -> TLC. Returns (bad list [(case, record, reason)], records)."""
    for i, c in enumerate(cases):
        c["id"] = i
    binary = vlib.build_harness(profile)
    wd = vlib.workdir(name + "_" + profile)
    recs, _ = vlib.run_harness(binary, [strip(c) for c in cases], wd)
    tpath = os.path.join(wd, "flat.trace.ndjson")
    nlines = write_trace(tpath, cases, recs, keep)
    tr = vlib.run_tlc_trace(module, tpath, xmx=xmx)
    if tr["judged"] != nlines:
        raise vlib.ToolError("trace spec consumed %d of %d lines" % (tr["judged"], nlines))
    res.add_trace(tr, len(cases), "%s(%s,%s)" % (module, name, profile))
    bad = [(cases[cid], recs[cid], reason) for (cid, reason) in tr["bad"]]
    return bad, recs


def describe(case):
    """compact description of a case for replay files / samples"""
    sp = case["_spec"]
    if sp.get("ctl"):
        return {"ctl": sp["what"], "rz": sp["rz"]}
    a = sp["args"]
    if "op" in sp:
        return {"op": sp["op"], "pt": sp["pt"], "dst": [case["dst"]["w"], case["dst"]["h"]], "cpu": sp["cpu"], "api": case.get("api"),
                "threads": case.get("threads"), "src_lay": case.get("src", {}).get("lay"), "dst_lay": case["dst"].get("lay"),
                "src_pt": case.get("src", {}).get("pt")}
    return {"pt": sp["pt"], "src": [a["sw"], a["sh"]], "dst": [a["dw"], a["dh"]], "box": a["box"], "Q": a["Q"],
            "alg": a["alg"], "filter": sp["flt"], "m": a["m"], "alpha": a["useAlpha"], "cpu": sp["cpu"], "rz": sp["rz"],
            "api": case.get("api"), "threads": case.get("threads"),
            "src_lay": case["src"].get("lay"), "dst_lay": case["dst"].get("lay")}
