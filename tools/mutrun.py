#!/usr/bin/env python3
"""Runs registered checks against a MUTATED copy of the repository without touching /repo:
   tools/mutrun.py <name> <patch.diff | -R<commit>> <PROP> [<PROP> ...] [--tier quick]
A scratch git worktree of /repo's HEAD is created under /var/tmp, the patch applied, a scratch copy of the
harness crate is bound to it (own target dir), and ./check runs with VERIF_HARNESS / VERIF_WORK / VERIF_EVIDENCE /
VERIF_REPLAY pointing into the scratch area. Everything is removed afterwards. Prints one line per property."""
import os, shutil, subprocess, sys, time

VERIF = os.path.dirname(os.path.dirname(os.path.abspath(__file__)))


def sh(cmd, **kw):
    return subprocess.run(cmd, shell=True, stdout=subprocess.PIPE, stderr=subprocess.STDOUT, text=True, **kw)


def main():
    args = sys.argv[1:]
    tier = "quick"
    if "--tier" in args:
        i = args.index("--tier")
        tier = args[i + 1]
        del args[i:i + 2]
    keep = "--keep" in args
    if keep:
        args.remove("--keep")
    name, patch, props = args[0], args[1], args[2:]
    base = "/var/tmp/mutrun_%s" % name
    wt = base + "/repo"
    hz = base + "/harness"
    shutil.rmtree(base, ignore_errors=True)
    sh("git -C /repo worktree prune")
    os.makedirs(base)
    r = sh("git -C /repo worktree add --detach %s HEAD" % wt)
    if r.returncode:
        print(r.stdout)
        sys.exit(2)
    try:
        if patch.startswith("-R"):
            r = sh("git -C %s show %s --format= | git -C %s apply -R --whitespace=nowarn" % (wt, patch[2:], wt))
        else:
            r = sh("git -C %s apply --whitespace=nowarn %s" % (wt, os.path.abspath(patch)))
        if r.returncode:
            print("PATCH-FAILED", r.stdout[-2000:])
            sys.exit(2)
        # scratch harness bound to the worktree
        shutil.copytree(os.path.join(VERIF, "harness"), hz, ignore=shutil.ignore_patterns("target"))
        ct = open(hz + "/Cargo.toml").read().replace('path = "/repo"', 'path = "%s"' % wt)
        open(hz + "/Cargo.toml", "w").write(ct)
        env = dict(os.environ, VERIF_HARNESS=hz, VERIF_WORK=base + "/work", VERIF_EVIDENCE=base + "/evidence", VERIF_REPLAY=base + "/replay")
        for p in props:
            t0 = time.time()
            r = subprocess.run([os.path.join(VERIF, "check"), p, "--tier", tier], env=env, stdout=subprocess.PIPE, stderr=subprocess.PIPE, text=True)
            viol = [l for l in r.stdout.split("\n") if l.startswith("VIOLATION") or l.startswith("KNOWN-FINDING")]
            first = [l for l in r.stderr.split("\n") if l.startswith("violation:")][:2]
            print("MUT %s %s rc=%d %.0fs %s" % (name, p, r.returncode, time.time() - t0, " | ".join(viol)), flush=True)
            for l in first:
                print("    " + l[:400])
            if r.returncode == 2:
                print("    " + r.stderr[-600:].replace("\n", "\n    "))
    finally:
        if not keep:
            sh("git -C /repo worktree remove --force %s" % wt)
            shutil.rmtree(base, ignore_errors=True)
            sh("git -C /repo worktree prune")


if __name__ == "__main__":
    main()
