"""./check selftest -- demonstrates that the bindings reject: a recorded trace is validated, then one field is corrupted /
one hook line removed / one observation altered, and TLC must reject exactly the manipulated case (and keep judging the rest)."""
import json, os, copy
import vlib, rz


def main(args):
    res = vlib.Result("selftest", "quick", 1)
    cases = []
    data = list(range(1, 6 * 5 * 4 + 1))
    data = [v % 251 for v in data]
    for k, a in enumerate(data):
        if k % 4 == 3:
            data[k] = 255
    # 0: two passes with alpha on a long-lived resizer, 1: the same again (buffers already grown), 2: copy, 3: nearest, 4: supersampling
    cases.append(rz.resize_case("U8x4", 6, 5, 3, 4, alg="conv", flt="Lanczos3", alpha=True, rz=5, src_c={"g": "data", "v": data}, log=("src", "dst"),
                                chk=("pipeline", "ret_ok", "outside")))
    cases.append(rz.resize_case("U8x4", 6, 5, 3, 4, alg="conv", flt="Lanczos3", alpha=True, rz=5, src_c={"g": "data", "v": data}, log=("src", "dst"),
                                chk=("pipeline", "ret_ok", "outside")))
    cases.append(rz.resize_case("U8x4", 6, 5, 4, 3, alg="conv", flt="Box", alpha=False, box=(1, 2, 4, 3), Q=1, src_c={"g": "data", "v": data},
                                log=("src", "dst"), chk=("pipeline", "ret_ok", "copy")))
    cases.append(rz.resize_case("U8x4", 6, 5, 4, 7, alg="nearest", alpha=False, src_c={"g": "data", "v": data}, log=("src", "dst"),
                                chk=("pipeline", "ret_ok", "near")))
    cases.append(rz.resize_case("U16x3", 12, 9, 3, 2, alg="ss", flt="Bilinear", m=2, alpha=False, src_c={"g": "rand", "seed": 4}, log=("dst",),
                                chk=("pipeline", "ret_ok")))
    for i, c in enumerate(cases):
        c["id"] = i
    binary = vlib.build_harness("release")
    wd = vlib.workdir("selftest")
    recs, _ = vlib.run_harness(binary, [rz.strip(c) for c in cases], wd)
    base = os.path.join(wd, "base.ndjson")
    rz.write_trace(base, cases, recs)
    lines = [json.loads(l) for l in open(base)]

    def validate(name, ls):
        p = os.path.join(wd, name + ".ndjson")
        with open(p, "w") as f:
            for l in ls:
                f.write(json.dumps(l, separators=(",", ":")) + "\n")
        tr = vlib.run_tlc_trace("TraceResize", p)
        return sorted(tr["bad"])

    ok = True

    def expect(name, ls, want_ids):
        nonlocal ok
        bad = validate(name, ls)
        got = sorted(set(i for i, _ in bad))
        status = "ok" if got == sorted(want_ids) else "UNEXPECTED"
        if status != "ok":
            ok = False
        print("selftest %-28s rejected cases %s (expected %s) %s %s" % (name, got, sorted(want_ids), status, [r for _, r in bad]))

    expect("unmodified", lines, [])
    # 1. corrupt one logged buffer length of the second call (the model knows the length after the first call)
    ls = copy.deepcopy(lines)
    t = [l for l in ls if l.get("ev") == "hook" and l["id"] == 1 and l["k"] == "temp"][0]
    t["len0"] += 4
    expect("corrupt-buffer-length", ls, [1])
    # 2. drop the premultiply hook of the first call
    ls = [l for l in copy.deepcopy(lines) if not (l.get("ev") == "hook" and l["id"] == 0 and l["k"] == "premul")]
    expect("drop-premul-hook", ls, [0])
    # 3. swap the pass order of the first call (u8: vertical must come first)
    ls = copy.deepcopy(lines)
    ps = [l for l in ls if l.get("ev") == "hook" and l["id"] == 0 and l["k"] == "pass"]
    ps[0]["axis"], ps[1]["axis"] = ps[1]["axis"], ps[0]["axis"]
    expect("swap-pass-order", ls, [0])
    # 4. alter one destination byte of the copy case / one of the nearest case
    ls = copy.deepcopy(lines)
    e = [l for l in ls if l.get("ev") == "end" and l["id"] == 2][0]
    e["dst"][5] = (e["dst"][5] + 1) % 256
    e = [l for l in ls if l.get("ev") == "end" and l["id"] == 3][0]
    e["dst"][0] = (e["dst"][0] + 1) % 256
    expect("alter-destination-bytes", ls, [2, 3])
    # 5. claim a different intermediate size for the supersampling case
    ls = copy.deepcopy(lines)
    t = [l for l in ls if l.get("ev") == "hook" and l["id"] == 4 and l["k"] == "ss_take"][0]
    t["tw"] += 1
    expect("wrong-supersampling-size", ls, [4])
    # 6. a write outside the destination
    ls = copy.deepcopy(lines)
    e = [l for l in ls if l.get("ev") == "end" and l["id"] == 0][0]
    e["outd1"] = [e["outd1"][0] ^ 1, e["outd1"][1]]
    expect("outside-digest-changed", ls, [0])
    print("selftest:", "all bindings rejected as expected" if ok else "FAILED")
    return 0 if ok else 1
