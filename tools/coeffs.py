"""Coefficient-table cases (read-only hook) and their validation by TraceCoeffs.tla."""
import json, os
import vlib, rz

NONNEG = ("Box", "Bilinear", "Hamming", "Gaussian")


def ccase(in_size, a, wq, Q, out, flt, adaptive, norm, checks, vals=True):
    sn, sd = rz.FILTERS[flt]
    return {"op": "coeffs", "in": in_size, "in0": {"n": a, "q": Q}, "in1": {"n": a + wq, "q": Q}, "out": out, "filter": flt,
            "adaptive": bool(adaptive), "norm": norm, "vals": vals,
            "echo": {"in": in_size, "a": a, "wq": wq, "Q": Q, "out": out, "filter": flt, "sn": sn, "sd": sd,
                     "adaptive": 1 if adaptive else 0, "norm": norm, "checks": list(checks)}}


def geometries(tier, rng):
    """(in_size, a, wq, Q, out): a lattice of one-axis geometries on the quarter-pixel grid, grid-aligned scales first"""
    out = []
    Q = 4
    # grid-aligned: power-of-two scales, integer or half-pixel crops (all tap arguments on the 1/64 grid)
    for (i, o) in ((4, 8), (4, 16), (8, 4), (16, 4), (16, 2), (6, 6), (3, 12), (12, 3), (5, 10), (10, 5), (8, 8), (32, 4), (2, 32), (7, 7), (9, 18), (1, 4), (1, 1)):
        out.append((i, 0, Q * i, Q, o))
    for (i, o, a, wq) in ((8, 4, 4, 16), (8, 8, 2, 16), (16, 4, 8, 32), (6, 4, 2, 8), (9, 2, 4, 32), (5, 8, 2, 16)):
        if a + wq <= Q * i:
            out.append((i, a, wq, Q, o))
    # general geometries
    sizes = [1, 2, 3, 5, 7, 12] if tier == "quick" else [1, 2, 3, 4, 5, 7, 9, 12, 17, 24]
    for i in sizes:
        for o in sizes:
            out.append((i, 0, Q * i, Q, o))
            if i >= 2:
                out.append((i, 1, Q * i - 1, Q, o))
                out.append((i, Q, Q * (i - 1), Q, o))
                out.append((i, Q * i - 3, 3, Q, o))
                out.append((i, 2, Q * i - 5 if Q * i > 6 else 1, Q, o))
    n = 40 if tier == "quick" else 600
    for _ in range(n):
        i = rng.randint(1, 40)
        o = rng.randint(1, 40)
        a = rng.randint(0, Q * i - 1)
        wq = rng.randint(1, Q * i - a)
        out.append((i, a, wq, Q, o))
    return out


def lattice(tier, rng, purpose):
    cases = []
    geos = geometries(tier, rng)
    if purpose == "unity":
        # C10: only the integer coefficients matter; include extreme scales (kernel lengths up to several thousand)
        k = 0
        for (i, a, wq, Q, o) in geos:
            for flt in rz.BUILTIN:
                for ad in (True, False):
                    for norm in (16, 32):
                        k += 1
                        if tier == "quick" and (k + (k // 4)) % 3:
                            continue
                        if tier != "quick" and (k + (k // 4)) % 2:
                            continue        # every second combination: the full product took > 1 h of TLC time on a loaded machine
                        cases.append(ccase(i, a, wq, Q, o, flt, ad, norm, ("unity",) + (("nonneg",) if flt in NONNEG else ()), vals=False))
        extreme = [(8192, 1), (4097, 2), (1000, 3), (6000, 5), (255, 1), (3, 4000), (1, 777), (2000, 1999), (1024, 1023), (513, 64)]
        if tier != "quick":
            extreme += [(8000, 7), (5000, 1), (2999, 2), (65535, 64), (40000, 9), (10, 10000), (7, 8191)]
        if tier == "quick":
            extreme = [(8192, 1), (1000, 3), (3, 4000), (2000, 1999), (513, 64)]
        for ei, (i, o) in enumerate(extreme):
            for fi, flt in enumerate(rz.BUILTIN):
                for norm in ((16, 32) if tier != "quick" else ((16, 32)[(ei + fi) % 2],)):
                    cases.append(ccase(i, 0, 1 * i, 1, o, flt, True, norm, ("unity",) + (("nonneg",) if flt in NONNEG else ()), vals=False))
    else:
        for (i, a, wq, Q, o) in geos:
            for flt in rz.BUILTIN:
                for ad in (True, False):
                    small = o <= 16 and i <= 40
                    checks = ["windows", "sum1", "quant", "unity", "clip"] + (["ideal"] if small else []) + (["nonneg"] if flt in NONNEG else [])
                    cases.append(ccase(i, a, wq, Q, o, flt, ad, 16 if (i + o) % 2 else 32, checks))
    return cases


def describe(c):
    e = c["echo"]
    return {"in": e["in"], "crop_start": "%d/%d" % (e["a"], e["Q"]), "crop_len": "%d/%d" % (e["wq"], e["Q"]), "out": e["out"], "filter": e["filter"],
            "adaptive": e["adaptive"], "norm": e["norm"], "checks": e["checks"]}


def run_coeff_trace(res, name, cases, profile="release"):
    for i, c in enumerate(cases):
        c["id"] = i
    binary = vlib.build_harness(profile)
    wd = vlib.workdir(name + "_coeffs")
    recs, tpath = vlib.run_harness(binary, cases, wd)
    # TraceCoeffs judges every line on its own (no state across lines): a long trace is cut into parts that TLC instances
    # validate side by side (a 15k-table thorough trace took > 75 min in one single-worker TLC run)
    nparts = min(8, max(1, len(cases) // 1500))
    if nparts == 1:
        tr = vlib.run_tlc_trace("TraceCoeffs", tpath, xmx="16g", timeout=10800)
    else:
        import concurrent.futures
        lines = open(tpath).read().splitlines()
        paths = []
        for k in range(nparts):
            pk = "%s.part%d" % (tpath, k)
            with open(pk, "w") as f:
                f.write("\n".join(lines[k::nparts]) + "\n")
            paths.append(pk)
        with concurrent.futures.ThreadPoolExecutor(max_workers=nparts) as ex:
            trs = list(ex.map(lambda pk: vlib.run_tlc_trace("TraceCoeffs", pk, xmx="6g", timeout=10800), paths))
        tr = {"bad": [b for t in trs for b in t["bad"]], "judged": sum(t["judged"] for t in trs), "nbad": sum(t["nbad"] for t in trs),
              "lines": [l for t in trs for l in t["lines"]], "generated": sum(t["generated"] for t in trs),
              "distinct": sum(t["distinct"] for t in trs), "wall_s": max(t["wall_s"] for t in trs)}
        if tr["judged"] != len(lines):
            raise vlib.ToolError("TraceCoeffs parts judged %d of %d lines" % (tr["judged"], len(lines)))
    res.add_trace(tr, len(cases), "TraceCoeffs(%s)" % name)
    claimed = [x for x in tr["lines"] if x[0] == "CLAIMED"]
    if claimed:
        tot = win = 0
        for (_, rest) in claimed:
            parts = [int(v) for v in rest.split(",")]
            win += parts[1]
            tot += parts[2]
        res.cov["ideal_windows_with_value_claim"] = win
        res.cov["ideal_windows_total"] = tot
    return [(cases[cid], recs[cid], reason) for (cid, reason) in tr["bad"]]
