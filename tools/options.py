"""Options.tla binding (spec -> implementation -> spec): MC_Options enumerates every sequence of builder calls up to the
tier's length and prints them; the harness applies each sequence to the real ResizeOptions builder and resizes; TraceOptions
folds the same steps with Options!Apply and judges the crop box in force, the dispatched algorithm, the alpha flag and the
kernel-size mode recorded by the hooks."""
import json, re, random
import vlib, rz

_RE = re.compile(r'<<\s*"REPLAY",\s*"(.*?)"\s*>>', re.S)     # TLC wraps long tuples over several lines


def behaviours(res, n):
    r = vlib.run_tlc_mc("MC_Options", workers=1, extra=[], env_extra={"OPTIONS_N": str(n)}, cfg="MC_Options.cfg" if n == 3 else "MC_Options_%d.cfg" % n)
    res.add_mc(r, "builder sequences up to length %d: incremental state = Fold, LastWins per field; every sequence printed for replay" % n)
    if not r["ok"]:
        res.violation(what="MC_Options invariant violated", detail=r["error"])
        return []
    seqs = []
    for m in _RE.finditer(r["out"]):
        seqs.append(json.loads(m.group(1).replace('\\"', '"').replace("\\\\", "\\")))
    return seqs


def to_harness(step):
    s = dict(step)
    if s["op"] == "crop":
        s["v"] = [{"n": v, "q": 4} for v in s["v"]]
    elif s["op"] == "fit":
        s["v"] = [{"n": c[0], "q": c[1]} for c in s["v"]]
    return s


def run(res, tier, seed, prop):
    rng = random.Random(seed * 7919 + 5)
    seqs = behaviours(res, 3 if tier == "quick" else 4)
    if not seqs:
        return
    shapes = [("U8x2", 8, 6, 5, 4), ("U8x4", 8, 6, 4, 3), ("U16x2", 9, 7, 3, 5), ("F32x2", 8, 6, 16, 12), ("U8", 8, 6, 4, 3), ("U16x3", 12, 9, 4, 4)]
    cases = []
    for i, steps in enumerate(seqs):
        pt, sw, sh, dw, dh = rz.pick(i, 31, shapes)
        cases.append({"op": "resize", "cpu": rz.pick(i, 32, rz.CPUS), "src": {"pt": pt, "w": sw, "h": sh, "c": {"g": "rand", "seed": i + 1}},
                      "dst": {"pt": pt, "w": dw, "h": dh}, "opt": {"builder": [to_harness(s) for s in steps]}, "log": ["hooks"],
                      "x": {"steps": steps, "none": 0, "sw": sw, "sh": sh, "dw": dw, "dh": dh}})
    # the call that passes None for the options: library defaults
    for i in range(12):
        pt, sw, sh, dw, dh = shapes[i % len(shapes)]
        cases.append({"op": "resize", "cpu": rz.CPUS[i % 3], "src": {"pt": pt, "w": sw, "h": sh, "c": {"g": "rand", "seed": i + 1}},
                      "dst": {"pt": pt, "w": dw, "h": dh}, "opt_none": True, "log": ["hooks"],
                      "x": {"steps": [], "none": 1, "sw": sw, "sh": sh, "dw": dw, "dh": dh}})
    for i, c in enumerate(cases):
        c["id"] = i
    binary = vlib.build_harness("release")
    wd = vlib.workdir(prop.lower() + "_options")
    recs, tpath = vlib.run_harness(binary, [{k: v for k, v in c.items() if k != "x"} for c in cases], wd)
    with open(tpath, "w") as f:
        for c, r in zip(cases, recs):
            hooks = r.get("hooks", [])
            box = [h["d"] for h in hooks if h["k"] == "crop_box"]
            disp = [h["v"] for h in hooks if h["k"] == "dispatch"]
            adapt = [h["v"][4] for h in hooks if h["k"] == "conv_begin"]
            line = dict(c["x"], id=c["id"], ret=r.get("ret", "?"), box=box[0] if box else [], disp=disp[0] if disp else [], adapt=adapt)
            f.write(json.dumps(line, separators=(",", ":")) + "\n")
    tr = vlib.run_tlc_trace("TraceOptions", tpath)
    res.add_trace(tr, len(cases), "TraceOptions")
    for (cid, reason) in tr["bad"]:
        c = cases[cid]
        res.violation(what="%s options: %s" % (prop, reason), reason=reason, steps=c["x"]["steps"], none=c["x"]["none"],
                      src=[c["x"]["sw"], c["x"]["sh"]], dst=[c["x"]["dw"], c["x"]["dh"]], pt=c["src"]["pt"])
    res.cov["option_sequences"] = len(cases)
