#!/usr/bin/env python3
"""store_seed.py <seed-dir-name> <agent-id> <property> <change> <needs> [cargo feature args]: copies a sub-agent's deliverables
from /tmp/mut_<agent-id>_out into /verif/seeded/<seed-dir-name>/ with a meta.json skeleton."""
import json, os, shutil, sys
sid, aid, prop, change, needs = sys.argv[1:6]
feat = sys.argv[6] if len(sys.argv) > 6 else ""
d = "/verif/seeded/" + sid
os.makedirs(d, exist_ok=True)
out = "/tmp/mut_%s_out" % aid
for f in ("patch.diff", "demo.rs", "README.txt"):
    shutil.copy(os.path.join(out, f), d)
meta = {"id": sid, "breaks_property": prop, "change": change, "needs_to_manifest": needs,
        "author": "independent sub-agent given only the property text and a scratch worktree",
        "confirmed": {"how": "tools/confirm_seed.sh %s %s in a scratch worktree of /repo HEAD" % (aid, feat), "demo_with_change": "?", "demo_without_change": "?", "baseline_65_tests_with_change": "?"},
        "demo_cmd": "copy demo.rs to tests/zz_demo.rs; cargo test --offline %s --test zz_demo" % feat,
        "detected_by": "(filled in below by tools/mutrun.py results)"}
json.dump(meta, open(d + "/meta.json", "w"), indent=1)
print("stored", d)
