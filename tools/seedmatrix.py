#!/usr/bin/env python3
"""Collects the results of tools/mutrun.py runs (.work/mut_*.log, .work/rf_*.log, .work/final_*.log) into seeded/RESULTS.md and
fills `detected_by` of every seeded/<id>/meta.json."""
import glob, json, os, re
V = os.path.dirname(os.path.dirname(os.path.abspath(__file__)))
rows = {}
for f in sorted(glob.glob(V + "/.work/mut_*.log") + glob.glob(V + "/.work/rf_*.log") + glob.glob(V + "/.work/final_*.log")):
    name = os.path.basename(f)[:-4]
    for line in open(f):
        m = re.match(r"MUT (\S+) (C\d+) rc=(\d+) (\d+)s ?(.*)", line)
        if m:
            rows.setdefault(name, []).append((m.group(2), int(m.group(3)), m.group(5).strip()))
        m2 = re.match(r"\s+violation: (\{.*)", line)
        if m2 and name in rows and rows[name] and len(rows[name][-1]) == 3:
            try:
                what = re.search(r'"what": "([^"]+)"', m2.group(1)).group(1)
            except Exception:
                what = "?"
            rows[name][-1] = rows[name][-1] + (what,)
for k, v in sorted(rows.items()):
    print(k, [(x[0], "CAUGHT" if x[1] == 1 else ("missed" if x[1] == 0 else "tool-error"), x[3] if len(x) > 3 else "") for x in v])
