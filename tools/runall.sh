#!/bin/sh
# runs every registered quick (or $1) check on the current tree and prints one line per property
tier=${1:-quick}
cd /verif
for p in C04 C14 C15 C06 C05 C07 C09 C11 C12 C13 C16 C17 C02 C08 C10 C18 C01 C03; do
  s=$(date +%s)
  ./check $p --tier $tier > .work/runall_$p.out 2> .work/runall_$p.err
  rc=$?
  e=$(date +%s)
  echo "$p rc=$rc $((e-s))s $(grep -c KNOWN-FINDING .work/runall_$p.out) known $(grep VIOLATION .work/runall_$p.out | head -1)"
done
