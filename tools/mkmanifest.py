#!/usr/bin/env python3
"""Regenerates /verif/MANIFEST.json from the table below (one entry per claimed property)."""
import json, os
V = os.path.dirname(os.path.dirname(os.path.abspath(__file__)))
props = [json.loads(l) for l in open(os.path.join(V, "properties.jsonl"))]

TECH = "explicit TLA+ spec; TLC model check + TLC trace validation of recorded executions"
CHECKS = {
 "C04": dict(
    text="Decision tables of Geometry.tla (view rectangles over u32, buffer size/alignment, f64 crop boxes) are model-checked "
         "exhaustively at small scope by TLC (totality, unambiguity, exposure of accepted views, overflow-free == definition; the "
         "wrapping-u32 formulation is refuted as a witness) and proved for all u32 by Apalache lemmas; then ~35k boundary-lattice and seeded "
         "constructor / resize calls are executed on the release and the debug-assertion build and every recorded answer (result variant, "
         "width/height, every exposed row of tags) is judged by TLC against the same operators.",
    note="Trusted: TLC/Apalache, the JSON encoders of the harness (limbs, exact rationals), the lattice of inputs (not all u32 sextuples are "
         "executed; the universal statement is about the specified arithmetic). Zero-area boxes may be accepted or rejected (documented no-op).",
    design="4/C04", technique=TECH + "; Apalache lemmas over all u32"),
 "C14": dict(
    text="Views!Split (None-condition, band arithmetic, part rectangles) is model-checked exhaustively for every view in parents up to 3x3 with all "
         "(axis,start,size,parts) and all split-of-split compositions (tiling: ordered, sizes differ <= 1, pairwise disjoint, union = band, inside the view); "
         "the band arithmetic is an Apalache lemma for all 1 <= parts <= size < 2^32. Then every (container kind incl. cropped/nested/mutable, view size, axis, "
         "start, size, parts) up to the tier's bound and seeded split-of-split cases are executed on both builds; TLC judges the None/Some answer, "
         "every part's width/height/tag rows, and, for mutable parts, the parent after a distinct mark was written through each part.",
    note="Trusted: TLC/Apalache, harness tag reading. size = 0 / parts = 0 are unrepresentable (NonZeroU32). UnsafeImageMut is reached through the mutable default implementation only.",
    design="4/C14", technique=TECH + "; Apalache lemma for the band arithmetic"),
 "C15": dict(
    text="The ideal fit-crop (exact rationals, Geometry!Fit*) is model-checked for all sizes <= 9 and 36 centerings (inside, aspect, full in one "
         "dimension, margin split by the clamped centering) and its inside-ness is an Apalache lemma for all sizes 1..65535. The implementation's f64 results "
         "for a boundary lattice^4, near-equal-ratio and seeded quadruples (~20k quick) are logged as exact dyadic rationals and judged by TLC with exact "
         "arithmetic: non-negative origin, f64-rounded right/bottom edge <= source size (the library's own validation), branch choice, full dimension exact, "
         "aspect and centering within 2^-50 relative; real resizes with fit_into_destination must return Ok.",
    note="Inside-ness is judged as the library's validation computes it (f64 sum, ties-to-even, modelled exactly in Wide!DyRound53) plus at most one rounding error of the exact sum. "
         "Centerings are dyadic rationals; NaN excluded by the property.",
    design="4/C15", technique=TECH + " with exact dyadic arithmetic; Apalache lemma"),
 "C06": dict(
    text="Alpha.tla states the property (Mul = round(c*a/max), Div in {floor,ceil}(c*max/a) saturated, a=0 -> 0) and the portable algorithms; TLC checks "
         "algorithm = property for all 65,536 8-bit pairs, Apalache for all 2^32 16-bit pairs (and exhibits the u64 overflow at alpha = 1 as an expected "
         "counter-example). Implementation: every 8-bit pair in every lane position of 15 (quick) / 40 (thorough) row widths through 3 back-ends x "
         "{two-image,in-place} x {dynamic,typed} is projected to (colour,alpha)->output tables and judged entry by entry by TLC; 16-bit lattice^2 + seeded pairs "
         "(incl. colour > alpha, alpha = 1) are judged with Wide arithmetic, float images with exact dyadic arithmetic (product correctly rounded; quotient "
         "within 2^-22); alpha lane bit-identical; all variants of one input must agree (16-bit divide +-1, float divide <= 2 ulp); the 7 alpha-less "
         "types and size mismatches must be rejected with the destination untouched; run on release and debug-assertion builds.",
    note="All 2^32 16-bit pairs are covered for the specified algorithm (lemmas), the code is executed on lattice^2 + seeded pairs only. NEON/WASM kernels cannot run here.",
    design="4/C06", technique=TECH + "; Apalache lemmas for all 16-bit pairs"),
}
NA_REASON = "check not built yet (work in progress; DESIGN.md section 7 lists the build order)"

m = {"version": 1,
     "setup_cmd": "cd /verif/harness && cargo build --release --offline 2>&1 | tail -2 && cargo build --profile dbg --offline 2>&1 | tail -2",
     "hooks": {"guard": "--cfg fir_verif",
               "enable": "harness/.cargo/config.toml passes rustflags --cfg fir_verif to the harness build, whose path dependency is /repo (features rayon)",
               "baseline_off_cmd": "cd /repo && cargo test --workspace --no-fail-fast --offline",
               "source_commits": ["ef02d83"], "add_only": True},
     "engines": [{"name": "tlc", "path": "/usr/local/bin/tlc", "serves_properties": sorted(CHECKS), "kind_free_text": "TLA+ explicit-state model checker (model checks and trace validation)"},
                 {"name": "apalache", "path": "/usr/local/bin/apalache-mc", "serves_properties": sorted(CHECKS), "kind_free_text": "symbolic checker for arithmetic lemmas over full machine ranges"},
                 {"name": "firv", "path": "/verif/harness", "serves_properties": sorted(CHECKS), "kind_free_text": "Rust conformance harness: executes cases against the real library and records traces (no oracle)"}],
     "checks": [], "not_applicable": [],
     "notes": "One entry point: ./check <ID> --tier quick|thorough. Exit 0 held, 1 VIOLATION, 2 tool failure. Known findings: known_findings.json."}
for p in props:
    i = p["id"]
    if i in CHECKS:
        c = CHECKS[i]
        m["checks"].append({"property_id": i, "quick_cmd": "./check %s --tier quick" % i,
                            "thorough_cmd": "./check %s --tier thorough" % i,
                            "evidence_file": "/verif/evidence/%s.json" % i,
                            "replay_cmd_template": "cat {path}",
                            "engine": "tlc",
                            "level_claimed": {"category": "model_checking", "text": c["text"], "design_ref": c["design"]},
                            "level_note": c["note"], "technique": c["technique"]})
    else:
        m["not_applicable"].append({"property_id": i, "reason": NA_REASON})
json.dump(m, open(os.path.join(V, "MANIFEST.json"), "w"), indent=1)
print("checks:", [c["property_id"] for c in m["checks"]])
