#!/usr/bin/env python3
"""Regenerates /verif/MANIFEST.json from the table below (one entry per claimed property)."""
import json, os
V = os.path.dirname(os.path.dirname(os.path.abspath(__file__)))
props = [json.loads(l) for l in open(os.path.join(V, "properties.jsonl"))]

TECH = "explicit TLA+ spec; TLC model check + TLC trace validation of recorded executions"
CHECKS = {
 "C04": dict(
    text="Decision tables of Geometry.tla (view rectangles over u32, buffer size/alignment, f64 crop boxes) are model-checked "
         "exhaustively at small scope by TLC (totality, unambiguity, exposure of accepted views, overflow-free == definition; the "
         "wrapping-u32 formulation is refuted as a witness) and proved for all u32 by Apalache lemmas; then ~35k boundary-lattice and seeded "
         "constructor / resize calls are executed on the release and the debug-assertion build and every recorded answer (result variant, "
         "width/height, every exposed row of tags) is judged by TLC against the same operators.",
    note="Trusted: TLC/Apalache, the JSON encoders of the harness (limbs, exact rationals), the lattice of inputs (not all u32 sextuples are "
         "executed; the universal statement is about the specified arithmetic). A resize whose crop box or destination has zero area is the documented no-op (decided before the box is validated); zero-area view rectangles are judged by the strict iff (inside, borders included -> accepted).",
    design="4/C04", technique=TECH + "; Apalache lemmas over all u32"),
 "C14": dict(
    text="Views!Split (None-condition, band arithmetic, part rectangles) is model-checked exhaustively for every view in parents up to 3x3 with all "
         "(axis,start,size,parts) and all split-of-split compositions (tiling: ordered, sizes differ <= 1, pairwise disjoint, union = band, inside the view); "
         "the band arithmetic is an Apalache lemma for all 1 <= parts <= size < 2^32 and a TLAPS theorem (proofs/BandProof, machine-checked on every run) for all naturals. Then every (container kind incl. cropped/nested/mutable, view size, axis, "
         "start, size, parts) up to the tier's bound and seeded split-of-split cases are executed on both builds; TLC judges the None/Some answer, "
         "every part's width/height/tag rows, and, for mutable parts, the parent after a distinct mark was written through each part.",
    note="Trusted: TLC/Apalache, harness tag reading. size = 0 / parts = 0 are unrepresentable (NonZeroU32). UnsafeImageMut is reached through the mutable default implementation only.",
    design="4/C14", technique=TECH + "; Apalache lemma and TLAPS proof for the band arithmetic"),
 "C15": dict(
    text="The ideal fit-crop (exact rationals, Geometry!Fit*) is model-checked for all sizes <= 9 and 36 centerings (inside, aspect, full in one "
         "dimension, margin split by the clamped centering) and its inside-ness is an Apalache lemma for all sizes 1..65535 and a TLAPS theorem (proofs/FitProof) for all naturals. The implementation's f64 results "
         "for a boundary lattice^4, near-equal-ratio and seeded quadruples (~20k quick) are logged as exact dyadic rationals and judged by TLC with exact "
         "arithmetic: non-negative origin, f64-rounded right/bottom edge <= source size (the library's own validation), branch choice, full dimension exact, "
         "aspect and centering within 2^-50 relative; real resizes with fit_into_destination must return Ok, "
         "and the crop box the resizer really used (crop_box hook) is judged by the same operators, both with explicit centerings and with the default one (0.5, 0.5).",
    note="Inside-ness is judged as the library's validation computes it (f64 sum, ties-to-even, modelled exactly in Wide!DyRound53) plus at most one rounding error of the exact sum. "
         "Centerings are dyadic rationals; NaN excluded by the property.",
    design="4/C15", technique=TECH + " with exact dyadic arithmetic; Apalache lemma"),
 "C06": dict(
    text="Alpha.tla states the property (Mul = round(c*a/max), Div in {floor,ceil}(c*max/a) saturated, a=0 -> 0) and the portable algorithms; TLC checks "
         "algorithm = property for all 65,536 8-bit pairs, Apalache for all 2^32 16-bit pairs (and exhibits the u64 overflow at alpha = 1 as an expected "
         "counter-example). Implementation: every 8-bit pair in every lane position of 15 (quick) / 40 (thorough) row widths through 3 back-ends x "
         "{two-image,in-place} x {dynamic,typed} is projected to (colour,alpha)->output tables and judged entry by entry by TLC; 16-bit lattice^2 + seeded pairs "
         "(incl. colour > alpha, alpha = 1) are judged with Wide arithmetic, float images with exact dyadic arithmetic (product correctly rounded; quotient "
         "within 2^-22); alpha lane bit-identical; all variants of one input must agree (16-bit divide +-1, float divide <= 2 ulp); the 7 alpha-less "
         "types and size mismatches must be rejected with the destination untouched; run on release and debug-assertion builds.",
    note="All 2^32 16-bit pairs are covered for the specified algorithm (lemmas), the code is executed on lattice^2 + seeded pairs only. NEON/WASM kernels cannot run here.",
    design="4/C06", technique=TECH + "; Apalache lemmas for all 16-bit pairs"),
 "C05": dict(
    text="Resizer.tla is the pipeline state machine over the implementation's hook events; MC_Resizer explores every call of a representative alphabet and checks Written "
         "(a successful call assigns every destination pixel, an error/zero-size call none), NoStaleRead, BuffersHome, Canonical; the pinned 'no pass does nothing' "
         "behaviour is refuted as a witness. Conformance: ~1.2k (quick) executions of resize (all algorithms, SuperSampling m=1..4 incl. same-size intermediates), the four "
         "alpha operations, mapping and conversion, through exact / oversized / cropped / nested / typed destinations, 1 and 4 threads, each run twice with different sentinels: "
         "the hook events of every recorded call (crop resolution, copy fast path, dispatch, super-sampling plan, every temporary image with buffer length before/after and alignment gap, window extents, pass order and offsets, premultiply/divide) are validated step by step against Resizer!Ok/Upd (TraceResize), and TLC checks outside bytes unchanged, inside bytes equal in both runs, source unchanged, destination untouched on errors and zero sizes. "
         "Plans with a single pass whose crop lands inside cropped / nested views and every residue of the row length (vector body vs scalar tail of the alpha kernels) are covered systematically. Api.tla holds the entry-point decision tables "
         "(operation x source type x destination type x size relation -> Ok / which error) over all pixel-type pairs; TraceApi judges the recorded answer and the untouched destination of every combination, the container life cycle (Image::new zeroed, buffer length, copy, into_vec, typed access only with the own pixel type) and Filter::new. Also: same-size (copy path) geometries, fit_into_destination boxes a hair off integers (the boundary between the copy path and a pass), crop boxes narrower than any rational grid, band-splitting sizes with 4 threads into views with left != top. Thorough: + 30k seeded random calls.",
    note="Outside/source bytes are compared via two 31-bit digests. Assignment is inferred from equality under two sentinels (a result equal to both sentinels would be missed).",
    design="4/C05", technique=TECH),
 "C07": dict(
    text="MC_AlphaAlgebra checks exhaustively on a tiny domain that Div(Conv(Mul(src))) ignores colours under alpha 0, yields colour 0 where the resampled alpha is 0, "
         "equals plain resizing for an opaque source and leaves the alpha lane a plain convolution; MC_Resizer checks that the canonical term has Mul..Div exactly when alpha "
         "is on and the type has alpha. Conformance: metamorphic pairs (recoloured transparent pixels; opaque alpha-on vs alpha-off; alpha plane on vs off) for the 6 alpha types x "
         "convolution algorithms x 7 filters x back-ends, incl. crops deep inside the source with strong down-scales (the kernel reaches premultiplied pixels far outside the box); the hook events of every recorded call (crop resolution, copy fast path, dispatch, super-sampling plan, every temporary image with buffer length before/after and alignment gap, window extents, pass order and offsets, premultiply/divide) are validated step by step against Resizer!Ok/Upd (TraceResize), and TLC compares the recorded images of each pair.",
    note="Float opaque pairs are compared within 4 ulp (the divide by a resampled alpha of ~1.0).", design="4/C07", technique=TECH),
 "C09": dict(
    text="Resizer.tla models the three scratch buffers (grow-only lengths, one-pixel alignment gap, moved out and put back) and MC_Resizer_hist explores all 3-call histories "
         "with Reset of a reduced alphabet (full 2-call histories in the thorough tier). Conformance: seeded histories (all 13 pixel types, larger-then-smaller sizes, all algorithms, alpha on/off, "
         "rejected and zero calls, reset_internal_buffers, clone) on long-lived Resizers, every call repeated on a fresh one: TLC replays each history per slot -- the logged buffer "
         "length before/after every temporary image and the alignment gap must equal the model's, the hook sequence must be allowed -- and the reused result must equal the fresh one. "
         "Spec -> implementation: TLC's simulator draws call histories from MC_ResizerSim (behaviours of the specification), the harness executes them on one long-lived Resizer and the recorded hook stream is validated again; near-repeat histories "
         "(same sizes with another crop origin, filter, algorithm, pixel type or alpha flag directly after each other) target state that is keyed too coarsely; stale-scratch histories (a bright first call, then a deep crop / strong down-scale / other alpha setting on the same buffers). "
         "The back-end is selected on a long-lived resizer only when a case asks for another one, and Resizer!BackendOK requires the back-end in force at dispatch, premultiply and divide (hooks) to be the selected one -- also after reset and on clones.",
    note="Results compared via two 31-bit digests. Buffer contents are abstract (written / not written per image); stale *content* is detected only through the result comparison.",
    design="4/C09", technique=TECH),
 "C11": dict(
    text="Geometry!NearestSet is the exact rational floor(left + (x+1/2) w/n) with both neighbours at an exact tie; MC_Geometry checks index-inside-source for all geometries up to 6 "
         "pixels on the quarter-pixel grid, GeomLemmas!NearestInside proves it for all sizes < 2^16 (Apalache), proofs/NearestProof for all naturals and every grid (TLAPS, machine-checked on every run). Conformance: identity-tagged sources of all 13 types, edge-flush and "
         "sub-pixel crops, whole-number scale factors x every quarter-pixel origin, crop boxes narrower than any grid (one ulp wide and flush against an edge, 1e-9, denormal: IsNearestCell), 1-pixel sources, ratios to 1:200, buffers flush against guard pages; TLC checks every destination pixel is a bit-exact copy of a candidate source pixel and that the "
         "hook trace is Call, Dispatch, Nearest, Ret (no alpha phase).",
    note="Crop coordinates are dyadic (quarter pixels) so that the code's f64 arithmetic is exact away from ties.", design="4/C11", technique=TECH + "; Apalache lemma"),
 "C12": dict(
    text="Resizer.tla: copy fast path iff the crop is integer-aligned and of the destination's size; a dimension whose extent is unchanged gets no pass; a plan without passes copies "
         "(the pinned do-nothing behaviour is refuted as a witness in MC_Resizer). Conformance: destination = integer crop size for all types/algorithms/filters/alpha/back-ends/containers: "
         "hook trace must be copy_fast and dst = source region bit-exactly (TLC); one-dimension-equal cases: the logged plan has no pass along that dimension and changing one source column "
         "(row) changes only that destination column (row); SuperSampling whose intermediate image has the destination's size must equal the nearest-neighbour intermediate.",
    note="", design="4/C12", technique=TECH),
 "C13": dict(
    text="Views.tla: a view exposes exactly its rectangle of the parent (MC_Views). Conformance: each logical call (resize with every algorithm, alpha ops, mapping, conversion) is executed through "
         "17 container/placement combinations (in-place alpha operations through every mutable container; band-splitting sizes with 4 threads; Nearest at tie-prone non-binary geometries) (owned, slice, reference, typed, typed reference, cropped and nested-cropped views with different paddings, spare capacity, guard pages before/after; "
         "dynamic and typed entry points); the hook events of every recorded call (crop resolution, copy fast path, dispatch, super-sampling plan, every temporary image with buffer length before/after and alignment gap, window extents, pass order and offsets, premultiply/divide) are validated step by step against Resizer!Ok/Upd (TraceResize), and TLC requires a single result per logical call, unchanged surroundings and source. "
         "The row-iterator contract (Views!RowsFrom / RowGroups / RowsStep; MC_Rows) is validated directly: iter_rows, iter_rows_mut, iter_2_rows, iter_4_rows, iter_rows_with_step of every container kind for all start rows incl. beyond the height "
         "(TraceRows): number of rows, row length and the tags of every exposed pixel.",
    note="Results compared via two 31-bit digests.", design="4/C13", technique=TECH),
 "C16": dict(
    text="Convert.tla / TraceConvert: the 16 complete mapper tables (sRGB and gamma 2.2, both directions, 8/16-bit depth combinations) are recorded through forward_map / backward_map on ramps and "
         "judged by TLC: monotone, 0 -> 0, max -> max on every entry; every 8-bit entry and a seeded sample of the 16-bit entries against the documented transfer function within 1/2 + 1/16 unit, "
         "decided with exact integer powers (exponents 11/5, 5/11, 12/5, 5/12 and the decimal constants of the sRGB formulas) in Wide arithmetic; multi-component rows of widths 1..9 (two-image, "
         "in-place, cropped views): colour lanes equal the 1-component table, the alpha lane equals the plain depth conversion (MC_Convert); 8-bit sRGB -> 16-bit linear -> 8-bit is the identity; mismatching sizes, "
         "component counts and unsupported types are rejected with the destination untouched.",
    note="Exact rounding of the f32 powf is not modelled (band of 1/2 + 1/16 unit). 65,536-entry tables get the band check on a sample.", design="4/C16", technique=TECH + " with exact integer-power arithmetic"),
 "C17": dict(
    text="MC_Convert checks the documented integer conversions for all 65,536 values (monotone, end points, widening round trip, saturation). Conformance: change_type_of_pixel_components on complete "
         "ramps (u8/u16 sources) and dense seeded + boundary + non-finite samples (I32/F32 sources) for all 16 component-type pairs and multi-component types; TLC judges each recorded table: monotone, inside the "
         "destination range, minimum -> minimum and maximum -> maximum, out-of-range input saturates, same type is the identity; widening and narrowing back reproduces every value (10 type pairs); size and "
         "component-count mismatches are rejected.",
    note="u8/u16 -> i32: the end point is read as the image of the source range (255 -> 255*2^23), not i32::MAX. f32 compared through ordered keys.", design="4/C17", technique=TECH),
 "C01": dict(
    text="Three links, each judged by TLC. (1) TraceCoeffs: the f64 coefficient tables the resizer really uses (read-only hook) for a lattice of one-axis geometries (integer/fractional/edge-flush crops, "
         "7 filters, adaptive/fixed kernel size) have windows inside the kernel's support and the source (Geometry!WindowOK), sum to 1 within 2^-45, and every weight equals the documented kernel at the tap's exact "
         "rational argument, normalised, within 2^-40 -- Box/Bilinear/CatmullRom/Mitchell as exact rational polynomials (Kernels.tla), Hamming/Gaussian/Lanczos3 against a certified interval table (KernelTable, mpmath) where all "
         "arguments fall on its 1/64 grid; only zero-weight taps may be trimmed. (2) precision and integer coefficients equal FixedPoint!Precision16/32 and round-half-away of those weights. (3) TraceConv: every pass of "
         "(also long windows of 16-60 taps on every back-end and alpha-aware down-scales of crops deep inside the source) "
         "recorded resizes (13 types x back-ends x Convolution/Interpolation/SuperSampling m=1..3 x random/extreme/checkerboard/impulse contents; intermediate images dumped by hooks) is recomputed from the recorded pixels and "
         "those tables: integer samples must be the nearest integer of the fixed-point sum (half a unit, either neighbour at a tie, clamped), I32 within 1/2, floats within 2^-22 relative (+2^-45 of the absolute mass); "
         "SuperSampling's intermediate is the nearest-neighbour image; premultiply/divide per Alpha.tla. Design level: MC_FixedPoint, MC_Geometry, GeomLemmas!WindowInside (Apalache, sizes < 2^16), proofs/WindowProof (TLAPS, all naturals).",
    note="Transcendental kernel values off the 1/64 grid are not compared (windows, sum and quantisation still are). IEEE roundings are judged by exact dyadic intervals, not bit-exactly. The integer criterion is tied to "
         "the fixed-point architecture (dumped coefficients).", design="4/C01", technique=TECH + " with exact Wide/dyadic arithmetic"),
 "C02": dict(
    text="MC_Backends: every chunking scheme found in the SSE4.1/AVX2 kernels (16/8/4/2/1, 5/1, 32/16/8/4/1, row blocks of 4 and 2) consumes every index exactly once for every length 0..70 and terminates. Conformance: "
         "~3.5k (quick) cases covering every residue of width, kernel length and row count, all filters, custom kernels forcing other fixed-point precisions, alpha on/off, the four alpha operations incl. adversarial (colour, alpha) pairs (alpha = 1 under full-range colours), buffers flush against guard pages, "
         "each executed on None / Sse4_1 / Avx2; TLC validates the pipeline of each run and the group memo with the statement's tolerance classes (integers exact via digests, 16-bit alpha divide and alpha-aware U16x2/U16x4 resize +-1, "
         "floats within 4 units in the last place of the magnitude of the summed terms (Resizer-independent class memo_f32 with mexp)).",
    note="NEON / WASM kernels cannot run on this host.", design="4/C02", technique=TECH),
 "C03": dict(
    text="Index arithmetic the unsafe code relies on is specified and checked: windows and nearest indices inside the source (MC_Geometry; GeomLemmas for all sizes < 2^16, refuted without the crop-inside precondition), temporary images "
         "inside their buffers (Resizer!TempOK on every temp event), clip-table range (MC_FixedPoint, FixedLemmas incl. the normalised-window lemma), views inside parents (MC_Views), every call ends in Ok/Err (MC_Resizer). Conformance: "
         "(A) windows of the real coefficient tables for a lattice + seeded geometries up to 2000 px; (B) ~3k boundary executions per build on the optimised and the debug-assertion build with buffers flush against PROT_NONE pages: "
         "sizes 0/1, crops flush / sub-pixel / one ulp inside the edge / denormal / negative / NaN / infinite / f64::MAX, oversized and exact buffers, strided and typed views, all algorithms, custom kernels (sum|w| < 4: no panic; beyond: no crash), "
         "long-lived resizers; panics, aborts and signals are trace data that TLC rejects; (C) the range of indices really used for the u8 clip table (hook) under adversarial contents; (D) whatever a byte-buffer constructor accepts (every misalignment 0..7, all pixel types) must be usable: decision per Geometry!BufferDecisionOK, then a resize without panic. TLAPS: proofs/NearestProof.",
    note="Memory safety is observed (guard pages, debug assertions), not proved; a read inside mapped memory of a neighbouring row of a strided parent is only seen for the last row. NEON/WASM not executable.",
    design="4/C03", technique=TECH + "; Apalache lemmas; guard pages"),
 "C08": dict(
    text="Threading.tla specifies the band count over unbounded integers, SplitBands and the take/finish/join protocol over the implementation's events; MC_Threading explores all interleavings of band workers at small scope (no cell written twice, "
         "complete at the join, source line = destination line + offset); BandLemmas: band tiling for all 1 <= parts <= size < 2^32, band count in 0..extent for all u32 shapes, and the wrapping-u32 area refuted (65,536 rows). Conformance: "
         "each case runs in rayon pools of 1, 2, 3, 4, 7, 16, 32 threads (shapes 1xN / Nx1 up to 70,000, squares around the 2^14 area threshold, pools larger than the extent, all passes, one- and two-image alpha operations, crop boxes that give both passes non-zero source offsets, alpha types whose horizontal pass reads the premultiplied buffer with a row offset); TLC validates every "
         "logged split plan and band begin/end event against Threading (each band exactly once, join before the next step), the pipeline, and the output bytes against the 1-thread run.",
    note="OS schedules are sampled; exhaustive interleavings only in the model. Outputs compared via two 31-bit digests.", design="4/C08", technique=TECH + "; Apalache lemmas"),
 "C10": dict(
    text="FixedPoint!UnityBand is the exact condition on the integer coefficient sum S and precision p under which every constant 0..max is reproduced (MC_FixedPoint: iff at reduced depth; FixedLemmas!UniformIff8/16: full depth). Conformance: "
         "(a) the quantised tables of the real normalisers (hook) for a lattice of geometries incl. extreme scales (kernel lengths up to 8192) x 7 filters x both kernel-size modes x 8/16-bit are checked window by window by TLC (unity band, and the accumulator budget that the band argument presupposes: precision cap and coefficient mass, FixedLemmas!AccFits32/64) -- this covers "
         "every component value at once; non-negative kernels must give non-negative coefficients; (b) ~800 constant images (all listed 8-bit values, extremes of the wider types, alpha at max) through 3 algorithms x back-ends: per-plane (min,max) = (v,v), floats within 1 ulp.",
    note="", design="4/C10", technique=TECH + "; Apalache lemmas"),
 "C18": dict(
    text="MC_FixedPoint / FixedLemmas (MonotoneStep, RangeKept): with non-negative integer coefficients inside the unity band the accumulate/round/shift/clip pipeline is monotone in every sample and stays within [min,max] of the window; "
         "the premises are checked on the real tables of Box/Bilinear/Hamming/Gaussian (hook): every quantised coefficient non-negative, every window inside the band, accumulator within its budget, extreme scales included. Conformance: ~2k executions with contents confined to sub-ranges touching 0 / max (negative for I32), strong down-scales (windows of 16-100 taps) over plateaus and steps at the ends of the range on every back-end, for all types, "
         "algorithms and back-ends: TLC checks destination (min,max) inside source (min,max) per component plane, and dst(A) <= dst(B) for ordered pairs A <= B (floats: 1 ulp slack).",
    note="", design="4/C18", technique=TECH + "; Apalache lemmas"),
}
NA_REASON = "check not built yet (work in progress; DESIGN.md section 7 lists the build order)"

m = {"version": 1,
     "setup_cmd": "cd /verif/harness && cargo build --release --offline 2>&1 | tail -2 && cargo build --profile dbg --offline 2>&1 | tail -2",
     "hooks": {"guard": "--cfg fir_verif",
               "enable": "harness/.cargo/config.toml passes rustflags --cfg fir_verif to the harness build, whose path dependency is /repo (features rayon)",
               "baseline_off_cmd": "cd /repo && cargo test --workspace --no-fail-fast --offline",
               "source_commits": ["ef02d83", "927d2c0", "2fbaacf", "6d53a32", "7b816cc"], "add_only": True},
     "engines": [{"name": "tlc", "path": "/usr/local/bin/tlc", "serves_properties": sorted(CHECKS), "kind_free_text": "TLA+ explicit-state model checker (model checks and trace validation)"},
                 {"name": "apalache", "path": "/usr/local/bin/apalache-mc", "serves_properties": sorted(CHECKS), "kind_free_text": "symbolic checker for arithmetic lemmas over full machine ranges"},
                 {"name": "tlapm", "path": "/usr/local/bin/tlapm", "serves_properties": ["C01", "C03", "C11", "C14", "C15"], "kind_free_text": "TLA+ proof system: unbounded proofs of the band arithmetic, nearest-index-inside-source, window-inside-source and fit-crop-inside-source"},
                 {"name": "firv", "path": "/verif/harness", "serves_properties": sorted(CHECKS), "kind_free_text": "Rust conformance harness: executes cases against the real library and records traces (no oracle)"}],
     "checks": [], "not_applicable": [],
     "notes": "One entry point: ./check <ID> --tier quick|thorough. Exit 0 held, 1 VIOLATION, 2 tool failure. Known findings: known_findings.json."}
for p in props:
    i = p["id"]
    if i in CHECKS:
        c = CHECKS[i]
        m["checks"].append({"property_id": i, "quick_cmd": "./check %s --tier quick" % i,
                            "thorough_cmd": "./check %s --tier thorough" % i,
                            "evidence_file": "/verif/evidence/%s.json" % i,
                            "replay_cmd_template": "./check replay {path}",
                            "engine": "tlc",
                            "level_claimed": {"category": "model_checking", "text": c["text"], "design_ref": c["design"]},
                            "level_note": c["note"], "technique": c["technique"]})
    else:
        m["not_applicable"].append({"property_id": i, "reason": NA_REASON})
json.dump(m, open(os.path.join(V, "MANIFEST.json"), "w"), indent=1)
print("checks:", [c["property_id"] for c in m["checks"]])
