#!/usr/bin/env python3
"""Regenerates /verif/MANIFEST.json from the table below (one entry per claimed property)."""
import json, os
V = os.path.dirname(os.path.dirname(os.path.abspath(__file__)))
props = [json.loads(l) for l in open(os.path.join(V, "properties.jsonl"))]

TECH = "explicit TLA+ spec; TLC model check + TLC trace validation of recorded executions"
CHECKS = {
 "C04": dict(
    text="Decision tables of Geometry.tla (view rectangles over u32, buffer size/alignment, f64 crop boxes) are model-checked "
         "exhaustively at small scope by TLC (totality, unambiguity, exposure of accepted views, overflow-free == definition; the "
         "wrapping-u32 formulation is refuted as a witness) and proved for all u32 by Apalache lemmas; then ~35k boundary-lattice and seeded "
         "constructor / resize calls are executed on the release and the debug-assertion build and every recorded answer (result variant, "
         "width/height, every exposed row of tags) is judged by TLC against the same operators.",
    note="Trusted: TLC/Apalache, the JSON encoders of the harness (limbs, exact rationals), the lattice of inputs (not all u32 sextuples are "
         "executed; the universal statement is about the specified arithmetic). Zero-area boxes may be accepted or rejected (documented no-op).",
    design="4/C04", technique=TECH + "; Apalache lemmas over all u32"),
 "C14": dict(
    text="Views!Split (None-condition, band arithmetic, part rectangles) is model-checked exhaustively for every view in parents up to 3x3 with all "
         "(axis,start,size,parts) and all split-of-split compositions (tiling: ordered, sizes differ <= 1, pairwise disjoint, union = band, inside the view); "
         "the band arithmetic is an Apalache lemma for all 1 <= parts <= size < 2^32. Then every (container kind incl. cropped/nested/mutable, view size, axis, "
         "start, size, parts) up to the tier's bound and seeded split-of-split cases are executed on both builds; TLC judges the None/Some answer, "
         "every part's width/height/tag rows, and, for mutable parts, the parent after a distinct mark was written through each part.",
    note="Trusted: TLC/Apalache, harness tag reading. size = 0 / parts = 0 are unrepresentable (NonZeroU32). UnsafeImageMut is reached through the mutable default implementation only.",
    design="4/C14", technique=TECH + "; Apalache lemma for the band arithmetic"),
 "C15": dict(
    text="The ideal fit-crop (exact rationals, Geometry!Fit*) is model-checked for all sizes <= 9 and 36 centerings (inside, aspect, full in one "
         "dimension, margin split by the clamped centering) and its inside-ness is an Apalache lemma for all sizes 1..65535. The implementation's f64 results "
         "for a boundary lattice^4, near-equal-ratio and seeded quadruples (~20k quick) are logged as exact dyadic rationals and judged by TLC with exact "
         "arithmetic: non-negative origin, f64-rounded right/bottom edge <= source size (the library's own validation), branch choice, full dimension exact, "
         "aspect and centering within 2^-50 relative; real resizes with fit_into_destination must return Ok.",
    note="Inside-ness is judged as the library's validation computes it (f64 sum, ties-to-even, modelled exactly in Wide!DyRound53) plus at most one rounding error of the exact sum. "
         "Centerings are dyadic rationals; NaN excluded by the property.",
    design="4/C15", technique=TECH + " with exact dyadic arithmetic; Apalache lemma"),
 "C06": dict(
    text="Alpha.tla states the property (Mul = round(c*a/max), Div in {floor,ceil}(c*max/a) saturated, a=0 -> 0) and the portable algorithms; TLC checks "
         "algorithm = property for all 65,536 8-bit pairs, Apalache for all 2^32 16-bit pairs (and exhibits the u64 overflow at alpha = 1 as an expected "
         "counter-example). Implementation: every 8-bit pair in every lane position of 15 (quick) / 40 (thorough) row widths through 3 back-ends x "
         "{two-image,in-place} x {dynamic,typed} is projected to (colour,alpha)->output tables and judged entry by entry by TLC; 16-bit lattice^2 + seeded pairs "
         "(incl. colour > alpha, alpha = 1) are judged with Wide arithmetic, float images with exact dyadic arithmetic (product correctly rounded; quotient "
         "within 2^-22); alpha lane bit-identical; all variants of one input must agree (16-bit divide +-1, float divide <= 2 ulp); the 7 alpha-less "
         "types and size mismatches must be rejected with the destination untouched; run on release and debug-assertion builds.",
    note="All 2^32 16-bit pairs are covered for the specified algorithm (lemmas), the code is executed on lattice^2 + seeded pairs only. NEON/WASM kernels cannot run here.",
    design="4/C06", technique=TECH + "; Apalache lemmas for all 16-bit pairs"),
 "C05": dict(
    text="Resizer.tla is the pipeline state machine over the implementation's hook events; MC_Resizer explores every call of a representative alphabet and checks Written "
         "(a successful call assigns every destination pixel, an error/zero-size call none), NoStaleRead, BuffersHome, Canonical; the pinned 'no pass does nothing' "
         "behaviour is refuted as a witness. Conformance: ~1.2k (quick) executions of resize (all algorithms, SuperSampling m=1..4 incl. same-size intermediates), the four "
         "alpha operations, mapping and conversion, through exact / oversized / cropped / nested / typed destinations, 1 and 4 threads, each run twice with different sentinels: "
         "the hook events of every recorded call (crop resolution, copy fast path, dispatch, super-sampling plan, every temporary image with buffer length before/after and alignment gap, window extents, pass order and offsets, premultiply/divide) are validated step by step against Resizer!Ok/Upd (TraceResize), and TLC checks outside bytes unchanged, inside bytes equal in both runs, source unchanged, destination untouched on errors and zero sizes.",
    note="Outside/source bytes are compared via two 31-bit digests. Assignment is inferred from equality under two sentinels (a result equal to both sentinels would be missed).",
    design="4/C05", technique=TECH),
 "C07": dict(
    text="MC_AlphaAlgebra checks exhaustively on a tiny domain that Div(Conv(Mul(src))) ignores colours under alpha 0, yields colour 0 where the resampled alpha is 0, "
         "equals plain resizing for an opaque source and leaves the alpha lane a plain convolution; MC_Resizer checks that the canonical term has Mul..Div exactly when alpha "
         "is on and the type has alpha. Conformance: metamorphic pairs (recoloured transparent pixels; opaque alpha-on vs alpha-off; alpha plane on vs off) for the 6 alpha types x "
         "convolution algorithms x 7 filters x back-ends; the hook events of every recorded call (crop resolution, copy fast path, dispatch, super-sampling plan, every temporary image with buffer length before/after and alignment gap, window extents, pass order and offsets, premultiply/divide) are validated step by step against Resizer!Ok/Upd (TraceResize), and TLC compares the recorded images of each pair.",
    note="Float opaque pairs are compared within 4 ulp (the divide by a resampled alpha of ~1.0).", design="4/C07", technique=TECH),
 "C09": dict(
    text="Resizer.tla models the three scratch buffers (grow-only lengths, one-pixel alignment gap, moved out and put back) and MC_Resizer_hist explores all 3-call histories "
         "with Reset of a reduced alphabet (full 2-call histories in the thorough tier). Conformance: seeded histories (all 13 pixel types, larger-then-smaller sizes, all algorithms, alpha on/off, "
         "rejected and zero calls, reset_internal_buffers, clone) on long-lived Resizers, every call repeated on a fresh one: TLC replays each history per slot -- the logged buffer "
         "length before/after every temporary image and the alignment gap must equal the model's, the hook sequence must be allowed -- and the reused result must equal the fresh one.",
    note="Results compared via two 31-bit digests. Buffer contents are abstract (written / not written per image); stale *content* is detected only through the result comparison.",
    design="4/C09", technique=TECH),
 "C11": dict(
    text="Geometry!NearestSet is the exact rational floor(left + (x+1/2) w/n) with both neighbours at an exact tie; MC_Geometry checks index-inside-source for all geometries up to 6 "
         "pixels on the quarter-pixel grid, GeomLemmas!NearestInside proves it for all sizes < 2^16 (Apalache). Conformance: identity-tagged sources of all 13 types, edge-flush and "
         "sub-pixel crops, 1-pixel sources, ratios to 1:200, buffers flush against guard pages; TLC checks every destination pixel is a bit-exact copy of a candidate source pixel and that the "
         "hook trace is Call, Dispatch, Nearest, Ret (no alpha phase).",
    note="Crop coordinates are dyadic (quarter pixels) so that the code's f64 arithmetic is exact away from ties.", design="4/C11", technique=TECH + "; Apalache lemma"),
 "C12": dict(
    text="Resizer.tla: copy fast path iff the crop is integer-aligned and of the destination's size; a dimension whose extent is unchanged gets no pass; a plan without passes copies "
         "(the pinned do-nothing behaviour is refuted as a witness in MC_Resizer). Conformance: destination = integer crop size for all types/algorithms/filters/alpha/back-ends/containers: "
         "hook trace must be copy_fast and dst = source region bit-exactly (TLC); one-dimension-equal cases: the logged plan has no pass along that dimension and changing one source column "
         "(row) changes only that destination column (row); SuperSampling whose intermediate image has the destination's size must equal the nearest-neighbour intermediate.",
    note="", design="4/C12", technique=TECH),
 "C13": dict(
    text="Views.tla: a view exposes exactly its rectangle of the parent (MC_Views). Conformance: each logical call (resize with every algorithm, alpha ops, mapping, conversion) is executed through "
         "17 container/placement combinations (owned, slice, reference, typed, typed reference, cropped and nested-cropped views with different paddings, spare capacity, guard pages before/after; "
         "dynamic and typed entry points); the hook events of every recorded call (crop resolution, copy fast path, dispatch, super-sampling plan, every temporary image with buffer length before/after and alignment gap, window extents, pass order and offsets, premultiply/divide) are validated step by step against Resizer!Ok/Upd (TraceResize), and TLC requires a single result per logical call, unchanged surroundings and source.",
    note="Results compared via two 31-bit digests.", design="4/C13", technique=TECH),
 "C16": dict(
    text="Convert.tla / TraceConvert: the 16 complete mapper tables (sRGB and gamma 2.2, both directions, 8/16-bit depth combinations) are recorded through forward_map / backward_map on ramps and "
         "judged by TLC: monotone, 0 -> 0, max -> max on every entry; every 8-bit entry and a seeded sample of the 16-bit entries against the documented transfer function within 1/2 + 1/16 unit, "
         "decided with exact integer powers (exponents 11/5, 5/11, 12/5, 5/12 and the decimal constants of the sRGB formulas) in Wide arithmetic; multi-component rows of widths 1..9 (two-image, "
         "in-place, cropped views): colour lanes equal the 1-component table, the alpha lane equals the plain depth conversion (MC_Convert); 8-bit sRGB -> 16-bit linear -> 8-bit is the identity; mismatching sizes, "
         "component counts and unsupported types are rejected with the destination untouched.",
    note="Exact rounding of the f32 powf is not modelled (band of 1/2 + 1/16 unit). 65,536-entry tables get the band check on a sample.", design="4/C16", technique=TECH + " with exact integer-power arithmetic"),
 "C17": dict(
    text="MC_Convert checks the documented integer conversions for all 65,536 values (monotone, end points, widening round trip, saturation). Conformance: change_type_of_pixel_components on complete "
         "ramps (u8/u16 sources) and dense seeded + boundary + non-finite samples (I32/F32 sources) for all 16 component-type pairs and multi-component types; TLC judges each recorded table: monotone, inside the "
         "destination range, minimum -> minimum and maximum -> maximum, out-of-range input saturates, same type is the identity; widening and narrowing back reproduces every value (10 type pairs); size and "
         "component-count mismatches are rejected.",
    note="u8/u16 -> i32: the end point is read as the image of the source range (255 -> 255*2^23), not i32::MAX. f32 compared through ordered keys.", design="4/C17", technique=TECH),
}
NA_REASON = "check not built yet (work in progress; DESIGN.md section 7 lists the build order)"

m = {"version": 1,
     "setup_cmd": "cd /verif/harness && cargo build --release --offline 2>&1 | tail -2 && cargo build --profile dbg --offline 2>&1 | tail -2",
     "hooks": {"guard": "--cfg fir_verif",
               "enable": "harness/.cargo/config.toml passes rustflags --cfg fir_verif to the harness build, whose path dependency is /repo (features rayon)",
               "baseline_off_cmd": "cd /repo && cargo test --workspace --no-fail-fast --offline",
               "source_commits": ["ef02d83"], "add_only": True},
     "engines": [{"name": "tlc", "path": "/usr/local/bin/tlc", "serves_properties": sorted(CHECKS), "kind_free_text": "TLA+ explicit-state model checker (model checks and trace validation)"},
                 {"name": "apalache", "path": "/usr/local/bin/apalache-mc", "serves_properties": sorted(CHECKS), "kind_free_text": "symbolic checker for arithmetic lemmas over full machine ranges"},
                 {"name": "firv", "path": "/verif/harness", "serves_properties": sorted(CHECKS), "kind_free_text": "Rust conformance harness: executes cases against the real library and records traces (no oracle)"}],
     "checks": [], "not_applicable": [],
     "notes": "One entry point: ./check <ID> --tier quick|thorough. Exit 0 held, 1 VIOLATION, 2 tool failure. Known findings: known_findings.json."}
for p in props:
    i = p["id"]
    if i in CHECKS:
        c = CHECKS[i]
        m["checks"].append({"property_id": i, "quick_cmd": "./check %s --tier quick" % i,
                            "thorough_cmd": "./check %s --tier thorough" % i,
                            "evidence_file": "/verif/evidence/%s.json" % i,
                            "replay_cmd_template": "cat {path}",
                            "engine": "tlc",
                            "level_claimed": {"category": "model_checking", "text": c["text"], "design_ref": c["design"]},
                            "level_note": c["note"], "technique": c["technique"]})
    else:
        m["not_applicable"].append({"property_id": i, "reason": NA_REASON})
json.dump(m, open(os.path.join(V, "MANIFEST.json"), "w"), indent=1)
print("checks:", [c["property_id"] for c in m["checks"]])
