"""Shared driver code: build the harness from /repo's working tree, run cases through it
(with crash isolation), run TLC / Apalache, match known findings, write evidence.

Exit codes of a check: 0 property held on everything explored, 1 violation (VIOLATION line
printed), 2 tool failure (never prints VIOLATION)."""
import json, os, re, shutil, subprocess, sys, time, hashlib, random

VERIF = os.path.dirname(os.path.dirname(os.path.abspath(__file__)))
SPEC = os.path.join(VERIF, "spec")
HARNESS = os.environ.get("VERIF_HARNESS", os.path.join(VERIF, "harness"))   # override: scratch copy bound to a scratch worktree (mutation runs)
WORK = os.environ.get("VERIF_WORK", os.path.join(VERIF, ".work"))
REPLAY = os.environ.get("VERIF_REPLAY", os.path.join(VERIF, "replay"))
EVID = os.environ.get("VERIF_EVIDENCE", os.path.join(VERIF, "evidence"))
TLA_JAR = "/opt/veriftools/tla/tla2tools.jar:/opt/veriftools/tla/CommunityModules-deps.jar"


class ToolError(Exception):
    pass


def log(*a):
    print(*a, file=sys.stderr, flush=True)


def workdir(name):
    # unique per process: two checks may run at the same time
    d = os.path.join(WORK, "%s.%d" % (name, os.getpid()))
    shutil.rmtree(d, ignore_errors=True)
    # scratch of finished earlier runs (their process is gone) is dropped so that the work area does not grow
    try:
        for e in os.listdir(WORK):
            base, _, pid = e.rpartition(".")
            if base == name and pid.isdigit() and int(pid) != os.getpid() and not os.path.exists("/proc/%s" % pid):
                shutil.rmtree(os.path.join(WORK, e), ignore_errors=True)
    except OSError:
        pass
    os.makedirs(d, exist_ok=True)
    return d


# ---------------------------------------------------------------- harness

_built = {}


def build_harness(profile="release"):
    """cargo build of the harness (path dependency on /repo => rebuilt from its working tree)."""
    if profile in _built:
        return _built[profile]
    env = dict(os.environ, CARGO_NET_OFFLINE="true")
    args = ["cargo", "build", "--offline"]
    args += ["--release"] if profile == "release" else ["--profile", profile]
    t0 = time.time()
    p = subprocess.run(args, cwd=HARNESS, env=env, stdout=subprocess.PIPE, stderr=subprocess.STDOUT, text=True)
    if p.returncode != 0:
        log(p.stdout[-4000:])
        raise ToolError("harness build failed (profile %s)" % profile)
    log("harness build (%s): %.1fs" % (profile, time.time() - t0))
    path = os.path.join(HARNESS, "target", profile, "firv")
    _built[profile] = path
    return path


def write_cases(path, cases):
    with open(path, "w") as f:
        for c in cases:
            f.write(json.dumps(c, separators=(",", ":")))
            f.write("\n")


def run_harness(binary, cases, wd, name="run", timeout=3600, env_extra=None):
    """Runs the cases in child processes. A crash (signal / abort) of the code under test is
    data: the crashing case gets a record ret="crash:<signal>" and the run resumes after it.
    Returns the list of trace records (one per case, in case order)."""
    cpath = os.path.join(wd, name + ".cases.ndjson")
    tpath = os.path.join(wd, name + ".trace.ndjson")
    ppath = os.path.join(wd, name + ".progress")
    write_cases(cpath, cases)
    if os.path.exists(tpath):
        os.remove(tpath)
    open(tpath, "w").close()
    first = 0
    env = dict(os.environ)
    env["RUST_BACKTRACE"] = "0"
    if env_extra:
        env.update(env_extra)
    t_end = time.time() + timeout
    crashes = 0
    while True:
        with open(ppath, "w") as f:
            f.write("-1")
        try:
            p = subprocess.run([binary, "run", cpath, tpath, ppath, str(first)], env=env,
                               stdout=subprocess.PIPE, stderr=subprocess.PIPE, text=True,
                               timeout=max(1, t_end - time.time()))
        except subprocess.TimeoutExpired:
            raise ToolError("harness timeout")
        prog = open(ppath).read().strip()
        if p.returncode == 0 and prog == "done":
            break
        if p.returncode == 2:
            log(p.stderr[-3000:])
            raise ToolError("harness error")
        # crash in the code under test
        n = int(prog)
        if n < first:
            log(p.stderr[-3000:])
            raise ToolError("harness crashed before making progress (rc=%s)" % p.returncode)
        crashes += 1
        if crashes > 500:
            raise ToolError("too many crashes")
        sig = -p.returncode if p.returncode < 0 else p.returncode
        # drop a possibly half-written last line, then record the crash
        recs = [l for l in open(tpath).read().split("\n") if l.strip()]
        good = []
        for l in recs:
            try:
                json.loads(l)
                good.append(l)
            except Exception:
                pass
        case = cases[n]
        crash = {"id": case["id"], "op": case["op"], "ret": "crash:%d" % sig}
        if "echo" in case:
            crash["echo"] = case["echo"]
        good.append(json.dumps(crash, separators=(",", ":")))
        with open(tpath, "w") as f:
            f.write("\n".join(good) + "\n")
        first = n + 1
        if first >= len(cases):
            break
    recs = [json.loads(l) for l in open(tpath) if l.strip()]
    if len(recs) != len(cases):
        raise ToolError("harness produced %d records for %d cases" % (len(recs), len(cases)))
    return recs, tpath


# ---------------------------------------------------------------- TLC

def _tlc_cmd(workers, metadir, cfg, module, extra=()):
    return ["java", "-XX:+UseParallelGC", "-cp", TLA_JAR, "tlc2.TLC", "-workers", str(workers),
            "-metadir", metadir, "-cleanup", "-noGenerateSpecTE", "-checkpoint", "0", *extra, "-config", cfg, module]
    # -checkpoint 0: no periodic checkpoints (the depth-first StateDeque queue of the trace validations cannot be
    # checkpointed: a validation running longer than 30 minutes died with UnsupportedOperationException)


_STATS = re.compile(r"(\d+) states generated, (\d+) distinct states found")


def parse_tlc(out):
    res = {"generated": 0, "distinct": 0, "ok": False, "error": None}
    for m in _STATS.finditer(out):
        res["generated"] = int(m.group(1))
        res["distinct"] = int(m.group(2))
    if "Model checking completed. No error has been found." in out:
        res["ok"] = True
    else:
        m = re.search(r"Error: (.*)", out)
        res["error"] = m.group(1) if m else "unknown TLC failure"
    return res


def run_tlc_mc(module, cfg=None, workers=8, timeout=1800, coverage=False, extra=(), env_extra=None, xmx="8g"):
    """Exhaustive model check of spec/<module>.tla. Returns stats; raises ToolError on tool failure.
    An invariant violation is returned as ok=False with the TLC output attached."""
    cfg = cfg or module + ".cfg"
    md = workdir("tlc_" + module + "_" + os.path.splitext(cfg)[0])
    env = dict(os.environ)
    env["JAVA_TOOL_OPTIONS"] = "-Xss512m -Xmx%s" % xmx
    if env_extra:
        env.update(env_extra)
    ex = list(extra)
    if coverage:
        ex += ["-coverage", "1"]
    t0 = time.time()
    try:
        p = subprocess.run(_tlc_cmd(workers, md, cfg, module + ".tla", ex), cwd=SPEC, env=env,
                           stdout=subprocess.PIPE, stderr=subprocess.STDOUT, text=True, timeout=timeout)
    except subprocess.TimeoutExpired:
        raise ToolError("TLC timeout on %s" % module)
    finally:
        shutil.rmtree(md, ignore_errors=True)
    out = p.stdout
    res = parse_tlc(out)
    res["wall_s"] = time.time() - t0
    res["out"] = out
    res["module"] = module
    res["cfg"] = cfg
    if not res["ok"] and not re.search(r"Invariant .* is violated|Temporal properties were violated|Assumption .* is false|property .* violated", out, re.I):
        log(out[-3000:])
        raise ToolError("TLC failed on %s: %s" % (module, res["error"]))
    if coverage:
        res["uncovered"] = re.findall(r"<(\w+) line \d+, col \d+ to line \d+, col \d+ of module \w+>: 0:0", out)
    return res


_BAD = re.compile(r'<<"BAD", (.*)>>\s*$')
_DONE = re.compile(r'<<"DONE", (\d+), (\d+)>>')
_PR = re.compile(r'<<"(\w+)", (.*)>>\s*$')


def run_tlc_trace(module, trace_path, cfg=None, timeout=3600, env_extra=None, xmx="12g"):
    """Validates an ndjson trace against spec/<module>.tla (one state per record).
    Returns {"bad": [(id, reason)], "judged": n, "generated":, "distinct":, "lines": other PrintT lines}."""
    cfg = cfg or module + ".cfg"
    md = workdir("tlc_" + module + "_" + hashlib.md5(trace_path.encode()).hexdigest()[:8])
    env = dict(os.environ)
    env["JAVA_TOOL_OPTIONS"] = "-Xss1g -Xmx%s -Dtlc2.tool.queue.IStateQueue=StateDeque" % xmx
    env["TRACE"] = trace_path
    if env_extra:
        env.update(env_extra)
    t0 = time.time()
    try:
        p = subprocess.run(_tlc_cmd(1, md, cfg, module + ".tla"), cwd=SPEC, env=env,
                           stdout=subprocess.PIPE, stderr=subprocess.STDOUT, text=True, timeout=timeout)
    except subprocess.TimeoutExpired:
        raise ToolError("TLC trace validation timeout on %s" % module)
    finally:
        shutil.rmtree(md, ignore_errors=True)
    out = p.stdout
    res = parse_tlc(out)
    res["wall_s"] = time.time() - t0
    bad = []
    other = []
    done = None
    # TLC's pretty-printer breaks tuples longer than the line width over several lines: match across line ends
    for m in re.finditer(r'<<\s*"BAD",\s*(-?\d+),\s*"([^"]*)"\s*>>', out):
        bad.append((int(m.group(1)), re.sub(r"\s*\n\s*", " ", m.group(2))))
    for line in out.split("\n"):
        if _BAD.search(line):
            continue
        m = _DONE.search(line)
        if m:
            done = (int(m.group(1)), int(m.group(2)))
            continue
        m = _PR.search(line)
        if m and m.group(1) not in ("BAD", "DONE"):
            other.append((m.group(1), m.group(2)))
    if not res["ok"] or done is None:
        log(out[-4000:])
        raise ToolError("TLC trace validation of %s did not complete: %s" % (module, res["error"]))
    res["bad"] = bad
    res["judged"] = done[0]
    res["nbad"] = done[1]
    res["lines"] = other
    if done[1] != len(bad):
        raise ToolError("trace spec reported %d bad but %d BAD lines parsed" % (done[1], len(bad)))
    return res


def run_tlapm(module, timeout=900):
    """tlapm check of spec/proofs/<module>.tla. Returns {"result": "Proved" | "Failed", "obligations": n}."""
    t0 = time.time()
    try:
        p = subprocess.run(["tlapm", "--threads", "8", module + ".tla"], cwd=os.path.join(SPEC, "proofs"), stdout=subprocess.PIPE,
                           stderr=subprocess.STDOUT, text=True, timeout=timeout)
    except subprocess.TimeoutExpired:
        return {"result": "Timeout", "wall_s": time.time() - t0, "module": module, "inv": "(all theorems)"}
    m = re.search(r"All (\d+) obligations? proved", p.stdout)
    if m:
        return {"result": "Proved", "obligations": int(m.group(1)), "wall_s": time.time() - t0, "module": module, "inv": "(all theorems)"}
    log(p.stdout[-2000:])
    return {"result": "Failed", "wall_s": time.time() - t0, "module": module, "inv": "(all theorems)"}


def run_apalache(module, inv, length=0, init=None, cinit=None, timeout=900, extra=()):
    """apalache-mc check of spec/lemmas/<module>.tla. Returns 'NoError' | 'Error' (counterexample) ;
    raises ToolError on timeouts and tool errors."""
    od = workdir("apalache_" + module + "_" + inv)
    cmd = ["apalache-mc", "check", "--out-dir=" + od, "--length=%d" % length, "--inv=" + inv]
    if init:
        cmd.append("--init=" + init)
    if cinit:
        cmd.append("--cinit=" + cinit)
    cmd += list(extra)
    cmd.append(module + ".tla")
    t0 = time.time()
    try:
        p = subprocess.run(cmd, cwd=os.path.join(SPEC, "lemmas"), stdout=subprocess.PIPE, stderr=subprocess.STDOUT,
                           text=True, timeout=timeout)
    except subprocess.TimeoutExpired:
        shutil.rmtree(od, ignore_errors=True)
        return {"result": "Timeout", "wall_s": time.time() - t0, "module": module, "inv": inv}
    shutil.rmtree(od, ignore_errors=True)
    out = p.stdout
    if "The outcome is: NoError" in out:
        r = "NoError"
    elif "The outcome is: Error" in out or "Found a deadlock" in out or "violat" in out:
        r = "Error"
    else:
        log(out[-3000:])
        raise ToolError("apalache failed on %s/%s" % (module, inv))
    return {"result": r, "wall_s": time.time() - t0, "module": module, "inv": inv}


# ---------------------------------------------------------------- encodings shared with the specs

def limbs(v):
    out = []
    while True:
        out.append(v & 0xffff)
        v >>= 16
        if v == 0:
            break
    return out


def f32_bits(x):
    import struct
    return struct.unpack("<I", struct.pack("<f", x))[0]


def f32_key(bits):
    return -(bits & 0x7fffffff) if bits & 0x80000000 else bits


# ---------------------------------------------------------------- findings, evidence, verdict

def load_findings():
    p = os.path.join(VERIF, "known_findings.json")
    if not os.path.exists(p):
        return {"findings": [], "fixed": []}
    return json.load(open(p))


def match_finding(prop, viol, findings):
    """A finding lists `property` and a `match` dict; every key must equal the violation's field
    (lists = membership, {"re":..} = regex on the string form)."""
    for f in findings["findings"]:
        if f["property"] != prop:
            continue
        ok = True
        for k, want in f["match"].items():
            have = viol.get(k)
            if isinstance(want, list):
                ok = have in want
            elif isinstance(want, dict) and "re" in want:
                ok = have is not None and re.search(want["re"], str(have)) is not None
            else:
                ok = have == want
            if not ok:
                break
        if ok:
            return f
    return None


class Result:
    def __init__(self, prop, tier, seed):
        self.prop = prop
        self.tier = tier
        self.seed = seed
        self.t0 = time.time()
        self.states = 0
        self.transitions = 0
        self.traces = 0
        self.samples = []
        self.violations = []   # dicts with at least "what"
        self.cov = {}
        self.assumptions = []
        self.mc = []
        self.lemmas = []

    def add_mc(self, r, what=""):
        self.states += r["distinct"]
        self.transitions += r["generated"]
        self.mc.append({"module": r.get("module"), "cfg": r.get("cfg"), "distinct_states": r["distinct"],
                        "states_generated": r["generated"], "wall_s": round(r["wall_s"], 1), "what": what})

    def add_trace(self, r, ncases, module):
        self.states += r["distinct"]
        self.transitions += r["generated"]
        self.traces += ncases
        self.mc.append({"module": module, "trace_events_judged": r["judged"], "distinct_states": r["distinct"],
                        "wall_s": round(r["wall_s"], 1)})

    def add_lemma(self, r, expect="NoError", what=""):
        self.lemmas.append({"module": r["module"], "inv": r["inv"], "result": r["result"], "expected": expect,
                            "wall_s": round(r["wall_s"], 1), "what": what})

    def violation(self, **kw):
        self.violations.append(kw)

    def finish(self):
        findings = load_findings()
        unlisted = []
        known = []
        for v in self.violations:
            f = match_finding(self.prop, v, findings)
            if f:
                known.append((f, v))
            else:
                unlisted.append(v)
        seen = set()
        for f, v in known:
            if f["id"] not in seen:
                seen.add(f["id"])
                print("KNOWN-FINDING: property=%s %s" % (self.prop, f["what"]))
        os.makedirs(EVID, exist_ok=True)
        cov = dict(self.cov)
        cov.update({
            "states": max(self.states, 0),
            "transitions": max(self.transitions, 0),
            "traces_validated_against_impl": self.traces,
            "samples": self.samples[:6] if self.samples else ["(none)"],
            "model_checks": self.mc,
            "lemmas": self.lemmas,
            "known_findings_hit": sorted(seen),
        })
        ev = {"property_id": self.prop, "tier": self.tier, "seed": self.seed, "level": "model_checking",
              "coverage": cov, "assumptions": self.assumptions,
              "wall_s": round(time.time() - self.t0, 1), "violations": len(unlisted)}
        with open(os.path.join(EVID, self.prop + ".json"), "w") as f:
            json.dump(ev, f, indent=1)
        if unlisted:
            os.makedirs(os.path.join(REPLAY, self.prop), exist_ok=True)
            rp = os.path.join(REPLAY, self.prop, "%s-%d.json" % (self.tier, self.seed))
            with open(rp, "w") as f:
                json.dump(unlisted[:20000], f)
            for v in unlisted[:10]:
                log("violation:", json.dumps(v)[:600])
            print("VIOLATION property=%s replay=%s" % (self.prop, rp))
            return 1
        return 0
