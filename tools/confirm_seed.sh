#!/bin/sh
# confirm_seed.sh <ID> [cargo-feature-args]: in the agent's scratch worktree /tmp/mut_<ID>:
#   demo fails with the change, passes without it, and the 65 baseline tests still pass with it.
id=$1; shift
wt=/tmp/mut_$id
cd $wt || exit 2
echo "== $id: demo WITH change"
nice cargo test --offline "$@" --test zz_demo 2>&1 | grep -E "^test result|^test .*(FAILED|ok)$" | tail -12
# (not `git stash`: the stash stack is shared by all worktrees of the repository)
git diff -- src > /tmp/mut_${id}_out/confirm_patch.diff
git apply -R /tmp/mut_${id}_out/confirm_patch.diff
echo "== $id: demo WITHOUT change"
nice cargo test --offline "$@" --test zz_demo 2>&1 | grep -E "^test result" | tail -3
git apply /tmp/mut_${id}_out/confirm_patch.diff
cmp -s /tmp/mut_${id}_out/confirm_patch.diff /tmp/mut_${id}_out/patch.diff || echo "NOTE: worktree change differs from the delivered patch.diff (whitespace / paths?)"
echo "== $id: baseline suite WITH change (demo moved away)"
mv tests/zz_demo.rs /tmp/mut_${id}_out/zz_demo.rs.keep
nice cargo test --workspace --no-fail-fast --offline 2>&1 | grep -E "^test .* \.\.\. (ok|FAILED)" | sed 's/ \.\.\. / /' > /tmp/mut_${id}_out/suite_confirm.txt
mv /tmp/mut_${id}_out/zz_demo.rs.keep tests/zz_demo.rs
python3 - <<PY
import json,re
base=json.load(open('/root/.vp/BASELINE.json'))
stable=set(t.split('::',1)[1] if t.startswith('fast_image_resize::') else t for t in base['stable_pass'])
res={}
for l in open('/tmp/mut_${id}_out/suite_confirm.txt'):
    m=re.match(r'test (\S+) (ok|FAILED)',l)
    if m: res[m.group(1)]=m.group(2)
def find(name):
    # baseline names look like  <file>::<path> ; cargo prints only <path>
    parts=name.split('::')
    for k in range(len(parts)):
        cand='::'.join(parts[k:])
        if cand in res: return res[cand]
    return None
bad=[t for t in stable if find(t)!='ok' and not t.startswith('resizer::')]
print("baseline stable tests not ok with the change:", bad[:10], "(checked %d)"%len(stable))
PY
