"""C08 -- with the rayon feature the result is independent of thread count and schedule.

Spec: Threading.tla (band count over unbounded integers, SplitBands, every band taken and finished exactly once, join) and
MC_Threading (all interleavings of band workers at small scope: no cell written twice, all cells written at the join, source
line = destination line + offset); lemmas/BandLemmas: MaxParts in 1..extent for all u32 shapes and the u32-wrapping formula
refuted (65,536 rows). Conformance: every case runs in rayon pools of 1, 2, 3, 4, 7, 16 and 32 threads; TLC validates the
logged split plans and band events against Threading and the output bytes against the 1-thread run."""
import random
import vlib, rz
from props.c12 import report

POOLS = [1, 2, 3, 4, 7, 16, 32]


def gen(tier, rng):
    cases = []
    g = 0
    shapes = [  # (pt, sw, sh, dw, dh, alg, filter)
        ("U8", 1, 65536, 1, 65536 - 3, "conv", "Bilinear"), ("U8", 65536, 1, 65536 - 3, 1, "conv", "Bilinear"),
        ("U8x4", 1, 70000, 1, 65537, "conv", "Box"), ("U16", 70000, 1, 65536, 1, "conv", "Box"),
        ("U8x4", 2, 65536, 3, 65536, "conv", "Bilinear"), ("F32", 65536, 2, 65536, 3, "interp", "Bilinear"),
        ("U8x4", 300, 300, 128, 128, "conv", "Lanczos3"), ("U8x3", 257, 131, 127, 129, "conv", "CatmullRom"),
        ("U16x4", 140, 130, 129, 128, "conv", "Lanczos3"), ("U8x2", 200, 100, 64, 257, "ss", "Hamming"),
        ("F32x4", 160, 90, 128, 129, "conv", "Mitchell"), ("I32", 150, 150, 130, 127, "interp", "Bilinear"),
        ("U8", 300, 7, 1000, 3, "conv", "Lanczos3"), ("U16x2", 7, 300, 5, 1000, "conv", "Gaussian"),
        ("U8x4", 1000, 40, 500, 40, "conv", "Box"), ("U8x4", 40, 1000, 40, 500, "conv", "Box"),
        ("U8", 20, 20, 10, 10, "conv", "Bilinear"), ("U8x4", 64, 64, 3, 2, "nearest", "Box"),
        ("U16x3", 500, 500, 130, 130, "ss", "Lanczos3"), ("F32x2", 129, 129, 256, 256, "conv", "Bilinear"),
    ]
    if tier != "quick":
        for pt in rz.ALL_PT:
            shapes += [(pt, 181, 167, 130, 131, "conv", "Lanczos3"), (pt, 33, 4000, 33, 2000, "conv", "Hamming"), (pt, 4000, 33, 2000, 33, "interp", "CatmullRom")]
    reps = 1 if tier == "quick" else 5
    for (pt, sw, sh, dw, dh, alg, flt) in shapes:
        for alpha in ((True, False) if rz.PT[pt]["alpha"] else (False,)):
            g += 1
            seed = rng.randint(1, 10 ** 9)
            # the window arithmetic of the pipeline specification uses TLC's 32-bit integers: only for moderate sizes
            pipe = ("pipeline",) if max(sw, sh, dw, dh) <= 4096 else ()
            for rep in range(reps):
                for t in POOLS:
                    if rep and t == 1:
                        continue
                    cases.append(rz.resize_case(pt, sw, sh, dw, dh, alg=alg, flt=flt, m=2, alpha=alpha, cpu=rz.pick(g, 115, rz.CPUS),
                                                src_c={"g": "rand", "seed": seed, "flo": 0.0, "fhi": 1.0}, threads=t, log=("digest",),
                                                chk=pipe + ("threads", "ret_ok", "outside") + (("memo_exact",) if t > 1 or rep else ()), g=g))
    # crops: the passes get non-zero source offsets (u8: vertical pass first with x_first > 0; single-pass plans with an integer origin)
    crop_shapes = [  # (pt, sw, sh, dw, dh, box (Q = 2), alg, filter)
        ("U8", 400, 300, 150, 140, (202, 37, 440, 420), "conv", "Bilinear"), ("U8x3", 300, 260, 160, 150, (81, 21, 400, 380), "conv", "Lanczos3"),
        ("U8x4", 260, 300, 140, 170, (120, 0, 300, 500), "conv", "CatmullRom"), ("U16x2", 300, 200, 200, 150, (100, 40, 400, 300), "conv", "Bilinear"),
        ("U8x3", 330, 240, 200, 130, (60, 30, 400, 390), "interp", "Mitchell"), ("F32", 280, 280, 130, 130, (100, 100, 300, 300), "conv", "Box"),
        ("U16x3", 300, 300, 140, 300 - 40, (80, 80, 440, 520), "conv", "Lanczos3"),    # vertical-only? (height = crop height): horizontal only
        ("U8", 300, 300, 300 - 60, 150, (120, 80, 480, 440), "conv", "Hamming"),        # width = crop width: vertical only with column offset 60
        ("U8x4", 200, 400, 140, 200, (120, 200, 280, 400), "ss", "Bilinear"),
        # alpha types whose horizontal pass reads the premultiplied buffer with a row offset (crop top far below the kernel reach):
        # non-u8 two-pass, and u8 with the height unchanged (horizontal only)
        ("U16x4", 200, 260, 120, 100, (40, 160, 300, 300), "conv", "Bilinear"), ("F32x2", 220, 240, 100, 90, (60, 200, 240, 200), "conv", "CatmullRom"),
        ("U8x4", 240, 300, 120, 130, (80, 180, 300, 260), "conv", "Lanczos3"), ("U8x2", 200, 300, 90, 100, (40, 200, 260, 200), "interp", "Bilinear"),
        ("U16x2", 300, 200, 150, 110, (100, 60, 400, 300), "conv", "Lanczos3"),
        # enlargements of a detail in the right / lower part of the picture: the source offset of a pass exceeds
        # (source extent - destination extent) along the OTHER axis
        ("U8x4", 200, 100, 180, 240, (240, 20, 120, 120), "conv", "Bilinear"), ("U8x3", 260, 120, 130, 260, (300, 0, 200, 240), "conv", "CatmullRom"),
        ("U16x3", 240, 100, 80, 200, (320, 0, 160, 200), "conv", "Lanczos3"), ("U8", 120, 260, 240, 130, (0, 300, 240, 200), "interp", "Bilinear"),
    ]
    for (pt, sw, sh, dw, dh, box, alg, flt) in crop_shapes:
        for alpha in ((True, False) if rz.PT[pt]["alpha"] else (False,)):
            g += 1
            seed = rng.randint(1, 10 ** 9)
            for slay in (None, {"k": "crop_ref", "pad": [37, 5, 3, 2]}):
                g += 1
                for t in POOLS:
                    cases.append(rz.resize_case(pt, sw, sh, dw, dh, alg=alg, flt=flt, m=2, alpha=alpha, box=box, Q=2, cpu=rz.pick(g, 701, rz.CPUS),
                                                src_c={"g": "rand", "seed": seed, "flo": 0.0, "fhi": 1.0}, src_lay=slay,
                                                dst_lay={"k": "crop_mut", "pad": [3, 2, 1, 4]} if slay else None, threads=t, log=("digest",),
                                                chk=("pipeline", "threads", "no_panic", "outside") + (("memo_exact",) if t > 1 else ()), g=g))
    # alpha operations: one- and two-image splitting
    for pt in ("U8x2", "U8x4", "U16x2", "U16x4", "F32x2", "F32x4"):
        for op in ("mul", "div", "mul_inplace", "div_inplace"):
            for (w, h) in ((1, 65536), (65536, 1), (130, 131), (3, 70000), (257, 64)):
                g += 1
                if tier == "quick" and g % 2:
                    continue
                seed = rng.randint(1, 10 ** 9)
                cont = {"g": "rand", "seed": seed, "flo": 0.0, "fhi": 1.0}
                for t in POOLS:
                    cases.append(rz.img_case(op, pt, w, h, src_c=cont, dst_c=cont if op.endswith("_inplace") else None, cpu=rz.pick(g, 116, rz.CPUS),
                                             threads=t, log=("digest",), chk=("threads", "ret_ok", "outside") + (("memo_exact",) if t > 1 else ()), g=g))
    return cases


def run(res, tier, seed):
    rng = random.Random(seed)
    r = vlib.run_tlc_mc("MC_Threading", workers=8)
    res.add_mc(r, "all interleavings of band workers (3x4 cells, 3 workers, both split directions, source offsets): no aliasing, complete at the join")
    if not r["ok"]:
        res.violation(what="MC_Threading invariant violated", detail=r["error"])
    for inv, expect, what in (("BandsTile", "NoError", "band offsets/lengths tile the range for all 1 <= parts <= size < 2^32"),
                              ("MaxPartsOK", "NoError", "band count in 1..extent and no division by zero for all u32 shapes (unbounded arithmetic)"),
                              ("MaxPartsU32", "Error", "the same with a wrapping u32 area: counter-example expected (65,536 rows)")):
        a = vlib.run_apalache("BandLemmas", inv)
        res.add_lemma(a, expect, what)
        if a["result"] != expect:
            raise vlib.ToolError("lemma BandLemmas!%s: %s (expected %s)" % (inv, a["result"], expect))
    cases = gen(tier, rng)
    for profile in (("release", "dbg") if tier != "quick" else ("release",)):
        bad, recs = rz.run_resize_trace(res, "c08", cases, profile=profile)
        report(res, "C08", bad)
    res.samples = [rz.describe(c) for c in (cases[0], cases[7], cases[-1])]
    res.cov["cases"] = len(cases)
    res.cov["pools"] = POOLS
    res.assumptions += ["real schedules are sampled by the OS (all interleavings only at the model level)",
                        "outputs compared through two 31-bit digests"]
