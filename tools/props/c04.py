"""C04 -- geometry validation accepts exactly the regions that lie inside the image.

Spec: Geometry!ViewDecisionOK / BufferDecisionOK / CropDecisionOK (+ ViewRows), model-checked in
MC_C04 at small scope, lemmas over all u32 in lemmas/CropLemmas (Apalache).
Conformance (implementation -> spec): a boundary lattice of constructor / resize calls is executed on
the release and on the debug-assertion build; TLC judges every recorded answer."""
import itertools, random
import vlib

U32 = 2 ** 32

VIEW_KINDS = ["TypedCroppedImage::from_ref", "TypedCroppedImage::new", "TypedCroppedImageMut::from_ref",
              "TypedCroppedImageMut::new", "CroppedImage::new", "CroppedImageMut::new"]
IMG_KINDS = ["Image::from_slice_u8", "Image::from_vec_u8", "ImageRef::new", "TypedImage::from_buffer",
             "TypedImageRef::from_buffer"]
PT = {"U8": (1, 1), "U8x2": (2, 1), "U8x3": (3, 1), "U8x4": (4, 1), "U16": (2, 2), "U16x2": (4, 2),
      "U16x3": (6, 2), "U16x4": (8, 2), "I32": (4, 4), "F32": (4, 4), "F32x2": (8, 4), "F32x3": (12, 4),
      "F32x4": (16, 4)}


def axis_lattice(n):
    """(origin, extent) pairs along one axis of a parent of size n (u32 values)."""
    base = {0, 1, 2, 3, n - 1, n, n + 1, 2 ** 16, 2 ** 31 - 1, 2 ** 31, U32 - 4, U32 - 2, U32 - 1}
    base = sorted(v for v in base if 0 <= v < U32)
    pairs = set(itertools.product(base, base))
    # wrapping sums: origin + extent == small (mod 2^32)
    for o in base:
        for s in (0, 1, n - 1, n, n + 1):
            e = (s - o) % U32
            if 0 <= e < U32:
                pairs.add((o, e))
    return sorted(pairs)


def profiles(n):
    """a few (origin, extent) choices for the other axis: valid full, valid partial, zero, invalid, wrap"""
    out = [(0, n), (0, 0), (n, 1), (1, U32 - 1), (U32 - 1, 2)]
    if n >= 2:
        out.append((1, n - 1))
    return out


def view_cases(tier, rng):
    cases = []
    parents = [(0, 0), (0, 3), (1, 1), (4, 4), (5, 3)] if tier == "quick" else \
        [(0, 0), (0, 3), (3, 0), (1, 1), (2, 2), (4, 4), (5, 3), (3, 7), (16, 1), (1, 16)]
    for (pw, ph) in parents:
        combos = []
        for (l, w) in axis_lattice(pw):
            for (t, h) in profiles(ph):
                combos.append((l, t, w, h))
        for (t, h) in axis_lattice(ph):
            for (l, w) in profiles(pw):
                combos.append((l, t, w, h))
        combos = sorted(set(combos))
        for i, b in enumerate(combos):
            kinds = VIEW_KINDS if tier != "quick" else [VIEW_KINDS[i % len(VIEW_KINDS)], VIEW_KINDS[(i + 3) % len(VIEW_KINDS)]]
            for k in kinds:
                cases.append({"op": "view_ctor", "kind": k, "pw": pw, "ph": ph, "box": list(b),
                              "echo": {"kind": k, "pw": vlib.limbs(pw), "ph": vlib.limbs(ph),
                                       "box": [vlib.limbs(x) for x in b]}})
    # seeded random boxes around small parents
    n = 2000 if tier == "quick" else 20000
    for _ in range(n):
        pw, ph = rng.randint(0, 6), rng.randint(0, 6)
        def coord(m):
            c = rng.random()
            if c < 0.6:
                return rng.randint(0, m + 2)
            if c < 0.8:
                return U32 - rng.randint(1, 8)
            return rng.choice([2 ** 16, 2 ** 31, 2 ** 31 - 1, rng.randint(0, U32 - 1)])
        b = (coord(pw), coord(ph), coord(pw), coord(ph))
        k = rng.choice(VIEW_KINDS)
        cases.append({"op": "view_ctor", "kind": k, "pw": pw, "ph": ph, "box": list(b),
                      "echo": {"kind": k, "pw": vlib.limbs(pw), "ph": vlib.limbs(ph),
                               "box": [vlib.limbs(x) for x in b]}})
    return cases


def img_cases(tier, rng):
    cases = []
    dims = [0, 1, 2, 3, 255, 65535, 65536, 2 ** 31, U32 - 1]
    pts = list(PT) if tier != "quick" else ["U8", "U8x3", "U8x4", "U16", "U16x3", "U16x4", "I32", "F32x3", "F32x4"]
    for kind in IMG_KINDS:
        for pt in pts:
            size, align = PT[pt]
            for (w, h) in itertools.product(dims, dims):
                need = w * h * size
                lens = set()
                if need <= 4096:
                    lens |= {max(0, need - 1), need, need + 1, need + size, max(0, need - size)}
                else:
                    lens |= {0, 1, 16, 4096}
                    wrapped = need % (2 ** 64)
                    if wrapped <= 8192:
                        lens |= {wrapped, wrapped + size}
                offs = [0] if kind == "Image::from_vec_u8" else ([0, 1, 2] if align > 1 else [0, 1])
                for ln in sorted(lens):
                    for off in offs:
                        if ln == 0 and off != 0:
                            continue
                        cases.append({"op": "img_ctor", "kind": kind, "pt": pt, "w": w, "h": h, "len": ln, "off": off,
                                      "echo": {"kind": kind, "pt": pt, "w": vlib.limbs(w), "h": vlib.limbs(h),
                                               "size": size, "align": align, "len": vlib.limbs(ln), "off": off}})
    if tier == "quick":
        rng.shuffle(cases)
        cases = cases[:12000]
    return cases


def crop_cases(tier, rng):
    Q = 4
    cases = []
    srcs = [(1, 1), (4, 4), (5, 3)]
    dsts = [(1, 1), (3, 2), (4, 4), (0, 2)] if tier == "quick" else [(1, 1), (3, 2), (4, 4), (0, 2), (2, 0), (7, 5)]
    algs = [("nearest", None), ("conv", "Bilinear"), ("conv", "Lanczos3"), ("ss", "Box"), ("interp", "CatmullRom")]

    def q(n):
        return {"t": "q", "n": n, "q": Q}

    def harness_val(c):
        if c["t"] == "q":
            return {"n": c["n"], "q": c["q"]}
        return c["t"]

    def axis(n):
        """(origin, extent) in units of 1/Q incl. special values"""
        o_vals = [q(v) for v in (-Q, -1, 0, 1, Q, Q * n - Q, Q * n - 1, Q * n, Q * n + Q)]
        o_spec = [{"t": t} for t in ("nan", "inf", "-inf", "-0")]
        e_vals = [q(v) for v in (-Q, -1, 0, 1, 2, Q, Q * n - 1, Q * n, Q * n + 1, 2 * Q * n)]
        e_spec = [{"t": t} for t in ("nan", "inf", "-inf", "-0")]
        pairs = list(itertools.product(o_vals + o_spec, e_vals + e_spec))
        # flush boxes
        for o in (0, 1, Q, Q * n - 1, Q * n - Q):
            if 0 <= o < Q * n:
                pairs.append((q(o), q(Q * n - o)))
                pairs.append((q(o), q(Q * n - o + 1)))
        # denormal extents / origins only away from exact boundaries
        pairs.append((q(0), {"t": "denorm"}))
        pairs.append(({"t": "denorm"}, q(Q * n - Q) if n > 1 else q(1)))
        pairs.append(({"t": "-denorm"}, q(1)))
        pairs.append((q(0), {"t": "-denorm"}))
        return pairs

    def prof(n):
        return [(q(0), q(Q * n)), (q(0), q(0)), (q(1), q(Q * n - 1)), (q(-1), q(Q)), (q(0), q(Q * n + 1)), ({"t": "nan"}, q(Q))]

    i = 0
    for (sw, sh) in srcs:
        combos = []
        for (l, w) in axis(sw):
            for (t, h) in prof(sh):
                combos.append((l, t, w, h))
        for (t, h) in axis(sh):
            for (l, w) in prof(sw):
                combos.append((l, t, w, h))
        for b in combos:
            i += 1
            dw, dh = dsts[i % len(dsts)]
            alg, flt = algs[i % len(algs)]
            opt = {"alg": alg, "crop": [harness_val(c) for c in b]}
            if flt:
                opt["filter"] = flt
            cases.append({"op": "resize", "cpu": ["none", "sse4", "avx2"][i % 3],
                          "src": {"pt": "U8", "w": sw, "h": sh, "c": {"g": "rand", "seed": i}},
                          "dst": {"pt": "U8", "w": dw, "h": dh, "lay": {"k": "image"}},
                          "opt": opt, "log": [],
                          "echo": {"box": list(b), "sw": sw, "sh": sh, "dw": dw, "dh": dh, "q": Q, "alg": alg}})
    return cases


def run(res, tier, seed):
    rng = random.Random(seed)
    # (M) the decisions at small scope, exhaustively
    r = vlib.run_tlc_mc("MC_C04", workers=8, coverage=True)
    res.add_mc(r, "decision tables exhaustive: parents <= 3x3, boxes in -1..5 (u32 modelled with wrap image), crop lattice")
    if not r["ok"]:
        res.violation(what="MC_C04 invariant violated", detail=r["error"])
    # non-vacuity / documentation of the defect class: the wrapping u32 formulation is refuted by TLC
    r = vlib.run_tlc_mc("MC_C04", cfg="MC_C04_wrap.cfg", workers=4)
    res.add_mc(r, "witness: wrapping left+width accepts a box that is not inside (expected counter-example)")
    if r["ok"]:
        raise vlib.ToolError("MC_C04_wrap: expected counter-example not found (model is vacuous)")
    # (L) the same facts for ALL u32 values
    for inv, expect in (("CheckedEqDef", "NoError"), ("WrapEqDef", "Error"), ("PixelsFit64", "NoError"), ("NeedFits64", "Error")):
        a = vlib.run_apalache("CropLemmas", inv)
        res.add_lemma(a, expect)
        if a["result"] != expect:
            raise vlib.ToolError("lemma CropLemmas!%s: %s (expected %s)" % (inv, a["result"], expect))
    cases = view_cases(tier, rng) + img_cases(tier, rng) + crop_cases(tier, rng)
    for i, c in enumerate(cases):
        c["id"] = i
    by_id = {c["id"]: c for c in cases}
    total = 0
    for profile in ("release", "dbg"):
        binary = vlib.build_harness(profile)
        wd = vlib.workdir("c04_" + profile)
        recs, tpath = vlib.run_harness(binary, cases, wd)
        tr = vlib.run_tlc_trace("TraceC04", tpath)
        res.add_trace(tr, len(cases), "TraceC04(" + profile + ")")
        total += len(cases)
        rec_by_id = {r_["id"]: r_ for r_ in recs}
        for (cid, reason) in tr["bad"]:
            c = by_id[cid]
            rr = rec_by_id[cid]
            v = {"what": "C04 " + c["op"] + " " + reason, "op": c["op"], "reason": reason, "build": profile,
                 "kind": c.get("kind"), "ret": rr.get("ret"), "use": rr.get("use"), "case": {k: c[k] for k in c if k not in ("echo",)}}
            if c["op"] == "resize":
                v["crop"] = c["opt"]["crop"]
                v["crop_class"] = crop_class(c)
            if c["op"] == "view_ctor":
                v["view_class"] = view_class(c)
            if c["op"] == "img_ctor":
                v["img_class"] = "nominal-size-overflows-usize" if c["w"] * c["h"] * PT[c["pt"]][0] >= 2 ** 64 else "other"
            res.violation(**v)
    res.samples = [{k: c[k] for k in c if k != "echo"} for c in (cases[0], cases[len(cases) // 2], cases[-1])]
    res.cov["cases_per_build"] = len(cases)
    res.cov["builds"] = ["release", "dbg (release + debug-assertions + overflow-checks)"]
    res.assumptions += ["TLC judges each recorded answer; inputs are a boundary lattice + seeded random, not all u32 sextuples",
                        "universal statements over all u32 are lemmas in spec/lemmas (Apalache), about the specified arithmetic"]


def crop_class(c):
    """coarse class of a crop case for known-findings matching (input relation, not property id)"""
    vals = c["opt"]["crop"]
    if any(isinstance(v, str) and v in ("nan", "inf", "-inf") for v in vals):
        return "non-finite"
    def num(v):
        if isinstance(v, str):
            return {"-0": 0, "denorm": 1e-300, "-denorm": -1e-300}[v]
        return v["n"] / v["q"]
    l, t, w, h = [num(v) for v in vals]
    if l < 0 or t < 0:
        return "negative-origin"
    if any(isinstance(v, str) and "denorm" in v for v in vals):
        return "denormal"
    return "other"


def view_class(c):
    l, t, w, h = c["box"]
    if l + w >= U32 or t + h >= U32:
        return "u32-sum-wraps"
    return "other"
