"""C14 -- splitting a view yields an exact, ordered, non-overlapping tiling.

Spec: Views!Split and SplitTiles (MC_Views: exhaustive at small scope incl. split-of-split; lemmas/BandLemmas:
tiling arithmetic for all u32 sizes). Conformance: every (container kind, view size, axis, start, size, parts)
up to a bound plus seeded split-of-split compositions are executed; TLC judges every part's tags and the
write-through of every mutable part."""
import random
import vlib, rz

RO_KINDS = ["typed", "typed_ref", "typed_crop", "typed_crop_mut", "nested"]
MUT_KINDS = ["typed", "typed_crop_mut", "nested_mut"]
PADS = [(0, 0, 0, 0), (1, 2, 1, 0), (2, 1, 0, 3)]


def mk(kind, mut, w, h, pad, a, b=None):
    """pad = (l,t,r,b) of the view inside the parent (split between outer/inner crop for nested kinds)"""
    l, t, r, bo = pad
    if kind in ("typed", "typed_ref"):
        l = t = r = bo = 0
    else:
        # an empty view is only constructible at an origin strictly inside its parent
        if w == 0:
            r = max(r, 1)
        if h == 0:
            bo = max(bo, 1)
    pw, ph = w + l + r, h + t + bo
    case = {"op": "split", "kind": kind, "mut": mut, "pw": pw, "ph": ph,
            "a": {"axis": a[0], "start": a[1], "size": a[2], "parts": a[3]}}
    if kind.startswith("nested"):
        o = (l // 2, t // 2, r // 2, bo // 2)
        case["outer"] = list(o)
        case["view"] = [l - o[0], t - o[1], w, h]
    else:
        case["view"] = [l, t, w, h]
    echo = {"al": l, "at": t, "w": w, "h": h, "pw": pw, "ph": ph, "mut": 1 if mut else 0, "kind": kind,
            "a": {"axis": a[0], "start": a[1], "size": a[2], "parts": a[3]}, "hasb": 0}
    if b:
        case["b"] = {"axis": b[0], "start": b[1], "size": b[2], "parts": b[3], "which": b[4]}
        echo["hasb"] = 1
        echo["b"] = {"axis": b[0], "start": b[1], "size": b[2], "parts": b[3], "which": b[4] + 1}
    case["echo"] = echo
    return case


def gen(tier, rng):
    cases = []
    emax = 8 if tier == "quick" else 20
    orth = [0, 1, 3]
    variants = [(k, False) for k in RO_KINDS] + [(k, True) for k in MUT_KINDS]
    n = 0
    for e in range(0, emax + 1):
        triples = []
        for start in range(0, e + 2):
            for size in range(1, e + 2):
                for parts in range(1, size + 2):
                    triples.append((start, size, parts))
        if tier != "quick" and e > 8:
            # beyond 8 the triple space is sampled (boundaries always kept)
            keep = [t for t in triples if t[0] in (0, 1, e - t[1], e - t[1] + 1) and t[2] in (1, 2, t[1] - 1, t[1], t[1] + 1)]
            rng.shuffle(triples)
            triples = sorted(set(keep + triples[:400]))
        for o in orth:
            for axis in ("h", "w"):
                w, h = (o, e) if axis == "h" else (e, o)
                for (start, size, parts) in triples:
                    # every container kind sees every triple at small extents; rotate beyond
                    vs = variants if e <= 4 else [rz.pick(n, 124, variants), variants[(n + 3) % len(variants)]]
                    for (k, m) in vs:
                        n += 1
                        cases.append(mk(k, m, w, h, rz.pick(n, 125, PADS), (axis, start, size, parts)))
    # split-of-split compositions (seeded)
    m = 6000 if tier == "quick" else 60000
    for _ in range(m):
        w, h = rng.randint(1, 7), rng.randint(1, 7)
        a_axis = rng.choice("hw")
        ext = h if a_axis == "h" else w
        size = rng.randint(1, ext)
        start = rng.randint(0, ext - size)
        parts = rng.randint(1, size)
        which = rng.randint(0, parts - 1)
        b_axis = rng.choice("hw")
        # extent of the chosen part along b's axis
        plen = size // parts + (1 if which < size % parts else 0)
        ext2 = (plen if b_axis == a_axis else (w if b_axis == "w" else h))
        size2 = rng.randint(1, ext2 + 1)
        start2 = rng.randint(0, max(0, ext2 - size2 + 1))
        parts2 = rng.randint(1, size2 + 1)
        k, mu = rng.choice(variants)
        cases.append(mk(k, mu, w, h, rng.choice(PADS), (a_axis, start, size, parts), (b_axis, start2, size2, parts2, which)))
    return cases


def run(res, tier, seed):
    rng = random.Random(seed)
    r = vlib.run_tlc_mc("MC_Views", workers=8)
    res.add_mc(r, "Views!Split tiling/None/composition invariants, all views in parents <= 3x3, all arguments")
    if not r["ok"]:
        res.violation(what="MC_Views invariant violated", detail=r["error"])
    for inv in ("BandsTile",):
        a = vlib.run_apalache("BandLemmas", inv)
        res.add_lemma(a, "NoError", "band offsets/lengths tile the range for all 1 <= parts <= size < 2^32")
        if a["result"] != "NoError":
            raise vlib.ToolError("lemma BandLemmas!%s: %s" % (inv, a["result"]))
    t = vlib.run_tlapm("BandProof")
    res.add_lemma(t, "Proved", "TLAPS: the band arithmetic tiles [0, size) for ALL naturals 1 <= parts <= size (not only u32)")
    if t["result"] != "Proved":
        raise vlib.ToolError("TLAPS proof BandProof: %s" % t["result"])
    cases = gen(tier, rng)
    for i, c in enumerate(cases):
        c["id"] = i
    total = 0
    for profile in ("release", "dbg"):
        binary = vlib.build_harness(profile)
        wd = vlib.workdir("c14_" + profile)
        recs, tpath = vlib.run_harness(binary, cases, wd)
        tr = vlib.run_tlc_trace("TraceC14", tpath)
        res.add_trace(tr, len(cases), "TraceC14(" + profile + ")")
        rec = {r_["id"]: r_ for r_ in recs}
        for (cid, reason) in tr["bad"]:
            c = cases[cid]
            res.violation(what="C14 split " + reason, reason=reason, build=profile, kind=c["kind"], mut=c["mut"],
                          ret=rec[cid].get("ret"), zero_sized=(c["view"][2] == 0 or c["view"][3] == 0),
                          case={k: c[k] for k in c if k != "echo"})
    res.samples = [{k: c[k] for k in c if k != "echo"} for c in (cases[5], cases[len(cases) // 2], cases[-1])]
    res.cov["cases_per_build"] = len(cases)
    res.cov["exhaustive_up_to"] = "%dx{0,1,3} per axis, all (start,size,parts) up to extent+1; all 8 container variants up to extent 4" % (8 if tier == "quick" else 20)
    res.assumptions += ["zero size/parts are unrepresentable (NonZeroU32) and therefore not generated"]
