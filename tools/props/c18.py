"""C18 -- non-negative filters never overshoot and preserve the order of inputs.

Spec: FixedPoint.tla (for non-negative quantised coefficients the accumulate / round / shift / clip pipeline is monotone in
every source value and stays within [min, max] iff the coefficient sum is within the partition-of-unity band; MC_FixedPoint at
reduced depth, lemmas/FixedLemmas at full depth) -- an integer fact about each window that the coefficient dumps of C10 expose;
the absence of wrap / sign errors in the kernels is observed on executions. Conformance: images confined to sub-ranges touching 0
and max (negative for I32) through Box / Bilinear / Hamming / Gaussian for all types, algorithms and back-ends: per-plane
(min, max) of source and destination are recorded and compared by TLC; ordered pairs A <= B must give dst A <= dst B."""
import random
import vlib, rz
from props.c12 import report

NONNEG = ["Box", "Bilinear", "Hamming", "Gaussian"]


def sub_range(pt, rng, mode):
    info = rz.PT[pt]
    if info["comp"] == "f32":
        lo, hi = {"low": (0.0, 0.25), "high": (0.75, 1.0), "mid": (0.3, 0.6), "neg": (-2.0, -0.5), "wide": (-1.0, 2.0), "point": (0.5, 0.5)}[mode]
        return {"flo": lo, "fhi": hi}
    mx = info["max"]
    if info["comp"] == "i32":
        lo, hi = {"low": (-2 ** 31, -2 ** 31 + 1000), "high": (mx - 1000, mx), "mid": (-50000, 70000), "neg": (-10 ** 9, -5), "wide": (-2 ** 31, mx),
                  "point": (12345, 12345)}[mode]
        return {"lo": lo, "hi": hi}
    lo, hi = {"low": (0, mx // 16), "high": (mx - mx // 16, mx), "mid": (mx // 3, mx // 2), "neg": (0, 1), "wide": (0, mx), "point": (mx - 1, mx - 1)}[mode]
    return {"lo": lo, "hi": hi}


def gen(tier, rng):
    cases = []
    g = 0
    geoms = [(9, 7, 4, 3), (4, 4, 11, 9), (33, 3, 7, 3), (3, 33, 3, 8), (16, 16, 5, 5), (5, 5, 5, 2), (65, 2, 17, 2), (2, 2, 31, 7), (12, 9, 12, 4), (70, 1, 9, 1)]
    algs = [("conv", 1), ("interp", 1), ("ss", 1), ("ss", 2)]
    modes = ["low", "high", "mid", "neg", "wide", "point"]
    n = 0
    for pt in rz.ALL_PT:
        isf = rz.PT[pt]["comp"] == "f32"
        for (sw, sh, dw, dh) in geoms:
            for flt in NONNEG:
                for (alg, m) in algs:
                    n += 1
                    if tier == "quick" and n % 3:
                        continue
                    mode = rz.pick(n, 111, modes)
                    box, Q = (None, 1) if n % 5 else ((1, 0, 2 * sw - 1, 2 * sh - 1), 2)
                    c = dict({"g": "rand", "seed": n}, **sub_range(pt, rng, mode))
                    cases.append(rz.resize_case(pt, sw, sh, dw, dh, alg=alg, flt=flt, m=m, alpha=False, box=box, Q=Q, cpu=rz.pick(n, 109, rz.CPUS),
                                                src_c=c, src_lay={"k": "image_ref", "guard": 1}, log=("minmax",),
                                                chk=("pipeline", "ret_ok", "range_ulp1" if isf else "range")))
    # strong down-scales (windows of 16 .. 100 taps: the long-window branches of the SIMD kernels), every row-count residue
    # of the 4-row / 2-row / 1-row kernels, contents with flat areas AT the ends of their range (a plateau at the maximum
    # must come out exactly at the maximum: one unit of rounding bias overshoots)
    strong = [(96, 5, 6, 5), (5, 96, 5, 6), (128, 3, 4, 3), (200, 2, 5, 1), (64, 7, 2, 7), (150, 6, 9, 6)]
    for pt in rz.ALL_PT:
        info = rz.PT[pt]
        isf = info["comp"] == "f32"
        for (sw, sh, dw, dh) in strong:
            for flt in NONNEG:
                for kind in ("plateau", "step"):
                    n += 1
                    if tier == "quick" and rz.pick(n, 113, [0, 1]):
                        continue
                    if isf:
                        lo, hi = rz.f32bits(0.25), rz.f32bits(0.75)
                    elif info["comp"] == "i32":
                        lo, hi = -12345, 2 ** 31 - 2
                    else:
                        lo, hi = rz.pick(n, 114, [(0, info["max"] - 1), (1, info["max"] // 2), (info["max"] // 3, info["max"])])
                    nc = info["nc"]
                    if kind == "plateau":
                        vals = [hi] * (sw * sh * nc)
                    else:
                        vals = []
                        for y in range(sh):
                            for x in range(sw):
                                vals += [hi if (x * 2 >= sw) == (y * 2 >= sh) else lo] * nc
                    alg, m = rz.pick(n, 115, [("conv", 1), ("conv", 1), ("ss", 1), ("interp", 1)])
                    for cpu in rz.CPUS:
                        cases.append(rz.resize_case(pt, sw, sh, dw, dh, alg=alg, flt=flt, m=m, alpha=False, cpu=cpu, src_c={"g": "data", "v": vals},
                                                    src_lay={"k": "image_ref", "guard": 1}, log=("minmax",),
                                                    chk=("pipeline", "ret_ok", "range_ulp1" if isf else "range")))
    if tier != "quick":
        for i in range(6000):
            kw = rz.random_resize_kw(rng, algs=[("conv", 1), ("interp", 1), ("ss", 1), ("ss", 2)], filters=NONNEG, maxdim=70)
            isf = rz.PT[kw["pt"]]["comp"] == "f32"
            c = dict({"g": "rand", "seed": rng.randint(1, 10 ** 9)}, **sub_range(kw["pt"], rng, rng.choice(modes)))
            cases.append(rz.resize_case(kw["pt"], kw["sw"], kw["sh"], kw["dw"], kw["dh"], alg=kw["alg"], flt=kw["flt"], m=kw["m"], alpha=False,
                                        box=kw["box"], Q=kw["Q"], cpu=kw["cpu"], src_c=c, src_lay={"k": "image_ref", "guard": 1}, log=("minmax",),
                                        chk=("pipeline", "ret_ok", "range_ulp1" if isf else "range")))
    # ordered pairs: B = A + non-negative increments (saturating)
    pair_geoms = geoms[:6]
    for pt in rz.ALL_PT:
        info = rz.PT[pt]
        isf = info["comp"] == "f32"
        for (sw, sh, dw, dh) in pair_geoms:
            for flt in NONNEG:
                n += 1
                if tier == "quick" and n % 2:
                    continue
                alg, m = algs[n % 4]
                nvals = sw * sh * info["nc"]
                if isf:
                    a = [rng.uniform(-1, 1.5) for _ in range(nvals)]
                    b = [x + rng.choice([0.0, 0.0, rng.random() * 0.5, 1e-6]) for x in a]
                    da, db = [rz.f32bits(x) for x in a], [rz.f32bits(x) for x in b]
                    # the f32 rounding of a and b keeps the order
                elif info["comp"] == "i32":
                    a = [rng.randint(-2 ** 31, 2 ** 31 - 1) for _ in range(nvals)]
                    b = [min(2 ** 31 - 1, x + rng.choice([0, 0, 1, rng.randint(0, 10 ** 8)])) for x in a]
                    da, db = a, b
                else:
                    mx = info["max"]
                    a = [rng.choice([0, mx, rng.randint(0, mx)]) for _ in range(nvals)]
                    b = [min(mx, x + rng.choice([0, 0, 1, rng.randint(0, mx // 4)])) for x in a]
                    da, db = a, b
                g += 1
                cpu = rz.pick(n, 110, rz.CPUS)
                for data, chk in ((da, ()), (db, ("mono_ulp1" if isf else "mono",))):
                    cases.append(rz.resize_case(pt, sw, sh, dw, dh, alg=alg, flt=flt, m=m, alpha=False, cpu=cpu,
                                                src_c={"g": "data", "v": data}, log=("dst",), chk=("pipeline", "ret_ok") + chk, g=g))
    return cases


def run(res, tier, seed):
    rng = random.Random(seed)
    r = vlib.run_tlc_mc("MC_FixedPoint", workers=8)
    res.add_mc(r, "fixed-point accumulate/round/shift/clip at reduced depth: non-negative coefficients => monotone and within [min,max] iff the sum is in the unity band")
    if not r["ok"]:
        res.violation(what="MC_FixedPoint invariant violated", detail=r["error"])
    for inv in ("MonotoneStep", "RangeKept"):
        a = vlib.run_apalache("FixedLemmas", inv)
        res.add_lemma(a, "NoError", "full-depth (8/16-bit components, precisions 4..45) version of the monotonicity / range lemma")
        if a["result"] != "NoError":
            raise vlib.ToolError("lemma FixedLemmas!%s: %s" % (inv, a["result"]))
    # the premises of the lemmas on the tables the resizer really uses for the four non-negative filters: every quantised
    # coefficient non-negative, every window inside the unity band, accumulator within its budget (extreme scales included)
    import coeffs
    ccases = [c for c in coeffs.lattice(tier, random.Random(seed + 17), purpose="unity") if c["filter"] in NONNEG]
    cbad = coeffs.run_coeff_trace(res, "c18", ccases)
    for (c, r, reason) in cbad:
        res.violation(what="C18 coefficients " + reason, reason=reason, filter=c["filter"], geom=[c["in"], c["out"]], norm=c.get("norm"), case=coeffs.describe(c))
    res.cov["coefficient_tables"] = len(ccases)
    cases = gen(tier, rng)
    bad, recs = rz.run_resize_trace(res, "c18", cases)
    report(res, "C18", bad)
    res.samples = [rz.describe(c) for c in (cases[0], cases[len(cases) // 2], cases[-1])]
    res.cov["cases"] = len(cases)
    res.assumptions += ["float formats: one ulp of slack on the ordered keys"]
