"""C17 -- depth conversion is monotone, keeps endpoints, saturates, lossless when widening.

Spec: Convert.tla (table predicates Monotone / InDstRange / end points / saturation; round trips) judged by TraceConvert.
Conformance: change_type_of_pixel_components on complete ramps for u8/u16 sources, dense seeded samples plus boundary and
non-finite values for I32/F32 sources, every supported (source, destination) pair, multi-component types, round trips through
the wider type, rejected combinations."""
import random, struct
import vlib, rz

I32MIN, I32MAX = -2 ** 31, 2 ** 31 - 1
ONE = rz.f32bits(1.0)
COMP_PT = {"u8": "U8", "u16": "U16", "i32": "I32", "f32": "F32"}


def key_to_bits(k):
    return k if k >= 0 else ((-k) | 0x80000000)


def f32_samples(rng, n):
    import math
    base = [float("-inf"), -1e30, -2.0, -1.0000001, -1.0, -0.9999999, -0.5, -1e-10, -0.0, 0.0, 1e-10, 0.5 / 255, 0.001, 0.5,
            0.9999999, 1.0, 1.0000001, 2.0, 1e30, float("inf")]
    vals = base + [rng.uniform(-1.5, 1.5) for _ in range(n)] + [rng.random() for _ in range(n)]
    bits = sorted(set(rz.f32bits(v) for v in vals), key=lambda b: rz.f32key(struct.unpack("<f", struct.pack("<I", b))[0]))
    return bits


def i32_samples(rng, n):
    base = [I32MIN, I32MIN + 1, -2 ** 30, -2 ** 23 - 1, -2 ** 23, -2 ** 22, -2, -1, 0, 1, 2, 2 ** 14 - 1, 2 ** 14, 2 ** 15 - 1, 2 ** 15,
            2 ** 22 - 1, 2 ** 22, 2 ** 22 + 1, 2 ** 23 - 1, 2 ** 23, 2 ** 23 + 1, 2 ** 30, I32MAX - 2 ** 22, I32MAX - 2 ** 14, I32MAX - 1, I32MAX]
    return sorted(set(base + [rng.randint(I32MIN, I32MAX) for _ in range(n)] + [rng.randint(0, 2 ** 24) for _ in range(n // 4)]))


def ends(frm, to):
    """(lo, hi, loTo, hiTo) in trace integers (f32 as keys = bit patterns for non-negative values)"""
    lo, hi = {"u8": (0, 255), "u16": (0, 65535), "i32": ((I32MIN, I32MAX) if to == "f32" else (0, I32MAX)),
              "f32": ((-ONE, ONE) if to == "i32" else (0, ONE))}[frm]
    if to == "f32":
        loTo, hiTo = (-ONE if frm == "i32" else 0), ONE
    elif to == "i32":
        loTo, hiTo = {"u8": (0, 255 << 23), "u16": (0, 65535 << 15), "f32": (I32MIN, I32MAX), "i32": (lo, hi)}[frm]
    else:
        loTo, hiTo = 0, (255 if to == "u8" else 65535)
    if frm == to:
        loTo, hiTo = lo, hi
    return lo, hi, loTo, hiTo


def conv_case(spt, dpt, data, w, h, echo, log=("src", "dst")):
    c = rz.img_case("convert", dpt, w, h, src_pt=spt, src_c={"g": "data", "v": data}, log=log, chk=())
    c["echo"] = echo
    return c


def gen_phase1(tier, rng):
    cases = []
    n = 1500 if tier == "quick" else 20000
    for frm in ("u8", "u16", "i32", "f32"):
        for to in ("u8", "u16", "i32", "f32"):
            if frm == "u8":
                xs = list(range(256))
            elif frm == "u16":
                xs = list(range(65536))
            elif frm == "i32":
                xs = i32_samples(rng, n)
            else:
                xs = f32_samples(rng, n)
            lo, hi, loTo, hiTo = ends(frm, to)
            cases.append(conv_case(COMP_PT[frm], COMP_PT[to], xs, len(xs), 1,
                                   {"kind": "table", "from": frm, "to": to, "lo": lo, "hi": hi, "loTo": loTo, "hiTo": hiTo}))
    # multi-component types: every lane behaves like the 1-component conversion (table per lane position is implied by
    # monotone ramps laid out so that consecutive components ascend)
    for (spt, dpt, frm, to) in (("U8x2", "U16x2", "u8", "u16"), ("U8x3", "F32x3", "u8", "f32"), ("U8x4", "U16x4", "u8", "u16"),
                                ("U16x2", "U8x2", "u16", "u8"), ("U16x3", "F32x3", "u16", "f32"), ("U16x4", "U8x4", "u16", "u8"),
                                ("F32x2", "U8x2", "f32", "u8"), ("F32x4", "U16x4", "f32", "u16"), ("U8x4", "F32x4", "u8", "f32")):
        nc = rz.PT[spt]["nc"]
        if frm == "f32":
            xs = f32_samples(rng, 300)
        else:
            mx = 255 if frm == "u8" else 65535
            xs = sorted(set(list(range(0, mx + 1, 1 if frm == "u8" else 97)) + [mx]))
        while len(xs) % nc:
            xs.append(xs[-1])
        lo, hi, loTo, hiTo = ends(frm, to)
        cases.append(conv_case(spt, dpt, xs, len(xs) // nc, 1,
                               {"kind": "table", "from": frm, "to": to, "lo": lo, "hi": hi, "loTo": loTo, "hiTo": hiTo}))
    # NaN: any in-range value, no panic
    for to in ("u8", "u16", "i32"):
        lo, hi, loTo, hiTo = ends("f32", to)
        cases.append(conv_case("F32", COMP_PT[to], [0x7fc00000], 1, 1,
                               {"kind": "table", "from": "f32", "to": to, "lo": lo, "hi": hi, "loTo": loTo, "hiTo": hiTo, "nan": 1}))
    # rejected combinations
    for (spt, dpt, sw, sh, dw, dh, exp) in (("U8", "U16", 3, 3, 4, 3, "err:DifferentDimensions"), ("U8", "U16", 3, 3, 3, 2, "err:DifferentDimensions"),
                                            ("U8", "U8x3", 3, 3, 3, 3, "err:UnsupportedCombinationOfImageTypes"),
                                            ("U8x2", "I32", 2, 2, 2, 2, "err:UnsupportedCombinationOfImageTypes"),
                                            ("U16x4", "U8x3", 2, 2, 2, 2, "err:UnsupportedCombinationOfImageTypes"),
                                            ("F32x3", "F32x3", 2, 2, 2, 3, "err:DifferentDimensions")):
        c = rz.img_case("convert", dpt, dw, dh, src_pt=spt, sw=sw, sh=sh, src_c={"g": "rand", "seed": 3, "flo": 0.0, "fhi": 1.0},
                        dst_c={"g": "rand", "seed": 9, "flo": 0.0, "fhi": 1.0}, log=("dst", "dst0"), chk=())
        c["echo"] = {"kind": "reject", "expect": exp}
        cases.append(c)
    return cases


ROUND = [("U8", "U16"), ("U8", "I32"), ("U8", "F32"), ("U16", "I32"), ("U16", "F32"), ("U8x3", "U16x3"), ("U8x4", "F32x4"), ("U16x2", "F32x2"),
         ("U8x2", "U16x2"), ("U16x4", "F32x4")]


def run(res, tier, seed):
    rng = random.Random(seed)
    r = vlib.run_tlc_mc("MC_Convert", workers=4)
    res.add_mc(r, "documented integer conversions satisfy monotone / end points / round trip / saturation for all 65,536 values")
    if not r["ok"]:
        res.violation(what="MC_Convert invariant violated", detail=r["error"])
    binary = vlib.build_harness("release")
    wd = vlib.workdir("c17")
    cases = gen_phase1(tier, rng)
    # round trips, first leg
    legs = []
    for (a, b) in ROUND:
        frm = rz.PT[a]["comp"]
        nc = rz.PT[a]["nc"]
        mx = 255 if frm == "u8" else 65535
        xs = list(range(mx + 1))
        while len(xs) % nc:
            xs.append(mx)
        c = rz.img_case("convert", b, len(xs) // nc, 1, src_pt=a, src_c={"g": "data", "v": xs}, log=("src", "dst"), chk=())
        c["echo"] = {"kind": "leg"}
        legs.append((a, b, xs, c))
    all1 = cases + [l[3] for l in legs]
    for i, c in enumerate(all1):
        c["id"] = i
    recs1, _ = vlib.run_harness(binary, [rz.strip(c) for c in all1], wd, name="p1")
    # second leg: the first leg's output converted back
    cases2 = []
    for (a, b, xs, c) in legs:
        r = recs1[c["id"]]
        if r.get("ret") != "ok":
            cc = dict(c)
            continue
        out = r["dst"]
        data = [key_to_bits(k) for k in out] if rz.PT[b]["comp"] == "f32" else out
        nc = rz.PT[a]["nc"]
        c2 = rz.img_case("convert", a, len(xs) // nc, 1, src_pt=b, src_c={"g": "data", "v": data}, log=("dst",), chk=())
        c2["echo"] = {"kind": "roundtrip", "orig": xs, "via": b, "pt": a}
        cases2.append(c2)
    for i, c in enumerate(cases2):
        c["id"] = len(all1) + i
    recs2, _ = vlib.run_harness(binary, [rz.strip(c) for c in cases2], wd, name="p2")
    # the trace: phase-1 tables and rejects, phase-2 round trips
    import json, os
    tpath = os.path.join(wd, "c17.trace.ndjson")
    judged = []
    with open(tpath, "w") as f:
        for c, r in list(zip(cases, recs1[:len(cases)])) + list(zip(cases2, recs2)):
            r = dict(r)
            r["echo"] = c["echo"]
            if c["echo"].get("nan"):
                r["src"] = [0]         # NaN has no position in the order; only range and result matter
                r["echo"] = dict(c["echo"], lo=0, hi=0, loTo=r.get("dst", [0])[0] if r.get("dst") else 0, hiTo=r.get("dst", [0])[0] if r.get("dst") else 0)
            for k in ("outd0", "outd1", "srcd0", "srcd1", "outn"):
                r.pop(k, None)
            f.write(json.dumps(r, separators=(",", ":")) + "\n")
            judged.append((c, r))
    tr = vlib.run_tlc_trace("TraceConvert", tpath)
    res.add_trace(tr, len(judged), "TraceConvert(C17)")
    by_id = {c["id"]: (c, r) for c, r in judged}
    for (cid, reason) in tr["bad"]:
        c, r = by_id[cid]
        e = c["echo"]
        detail = None
        if e["kind"] == "table" and "src" in r and "dst" in r:
            xs, ys = r["src"], r["dst"]
            for i in range(len(ys) - 1):
                if ys[i] > ys[i + 1]:
                    detail = {"first_descent_at_input": xs[i:i + 2], "outputs": ys[i:i + 2]}
                    break
        res.violation(what="C17 " + reason, reason=reason, kind=e["kind"], frm=e.get("from"), to=e.get("to"), ret=r.get("ret"),
                      pt=c["dst"]["pt"], src_pt=c.get("src", {}).get("pt"), detail=detail, via=e.get("via"))
    res.samples = [{"from": c["echo"].get("from"), "to": c["echo"].get("to"), "kind": c["echo"]["kind"], "n": c["dst"]["w"]} for c, r in judged[:5]]
    res.cov["tables"] = len(cases)
    res.cov["round_trips"] = len(cases2)
    res.states = max(res.states, 1)
    res.assumptions += ["u8/u16 -> i32 end point read as the image of the source range (255 -> 255 * 2^23), the strict reading (i32::MAX) is not demanded",
                        "f32 values are compared through ordered keys"]
