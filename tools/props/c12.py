"""C12 -- resizing to the same size is an exact copy.

Spec: Resizer (copy_fast / NeedPass / NoPass = copy; Canonical), Geometry!IsCopy; MC_Resizer explores the pipeline.
Conformance: recorded resizes with destination = integer crop size for every type / algorithm / filter / alpha / back-end;
TLC validates the hook sequence (copy_fast) and dst = source region; one-dimension-equal cases: the plan has no pass along
that dimension and changing one source column (row) changes only that destination column (row) -- also under integer crops
with a non-zero origin along the unchanged axis (the remaining pass then runs with a row / column offset), one variant per
destination row / column, every back-end; SuperSampling whose
intermediate image has the destination's size."""
import random
import vlib, rz


def tags(pt, w, h, rng):
    """identity-like content: distinct values per pixel where the component range allows"""
    info = rz.PT[pt]
    nc = info["nc"]
    out = []
    for y in range(h):
        for x in range(w):
            for k in range(nc):
                if info["comp"] == "u8":
                    out.append((x * 37 + y * 11 + k * 101 + rng.randint(0, 3)) % 256)
                elif info["comp"] == "u16":
                    out.append((y * 256 + x + k * 4096 + rng.randint(0, 3) * 16384) % 65536)
                elif info["comp"] == "i32":
                    out.append((y * 65536 + x) * 7 - 2 ** 30 + rng.randint(0, 3))
                else:
                    out.append(rz.f32bits(((y * 64 + x) / 4096.0 + k) * (1 if rng.random() < 0.8 else -1)))
    return out


def gen(tier, rng):
    cases = []
    algs = [("nearest", "Box", 1)] + [("conv", f, 1) for f in rz.BUILTIN] + [("interp", "Bilinear", 1), ("interp", "Lanczos3", 1),
                                                                           ("ss", "Box", 1), ("ss", "Lanczos3", 2), ("ss", "Bilinear", 3)]
    sizes = [(1, 1), (2, 3), (5, 4), (7, 7), (12, 3)] if tier == "quick" else [(1, 1), (1, 5), (2, 3), (5, 4), (7, 7), (12, 3), (3, 12), (17, 9), (33, 5)]
    n = 0
    for pt in rz.ALL_PT:
        for (sw, sh) in sizes:
            boxes = [None, (0, 0, sw, sh)]
            if sw >= 2 and sh >= 2:
                boxes += [(1, 0, sw - 1, sh), (0, 1, sw, sh - 1), (1, 1, sw - 1, sh - 1), (sw - 1, sh - 1, 1, 1)]
            if sw >= 4 and sh >= 3:
                boxes += [(1, 1, sw - 2, sh - 2), (2, 0, 1, sh)]
            for box in boxes:
                for ai, (alg, flt, m) in enumerate(algs):
                    n += 1
                    if tier == "quick" and (n % 3) != 0:
                        continue
                    dw, dh = (sw, sh) if box is None else (box[2], box[3])
                    alpha = (n // 3) % 2 == 0
                    cpu = rz.pick(n, 112, rz.CPUS)
                    lay = [None, {"k": "image_ref"}, {"k": "crop_ref", "pad": [1, 2, 1, 0]}][n % 3]
                    dlay = [None, {"k": "slice", "extra": 3}, {"k": "crop_mut", "pad": [2, 0, 1, 1]}][(n // 3) % 3]
                    cases.append(rz.resize_case(pt, sw, sh, dw, dh, alg=alg, flt=flt, m=m, alpha=alpha, box=box, Q=1, cpu=cpu,
                                                src_c={"g": "data", "v": tags(pt, sw, sh, rng)}, src_lay=lay, dst_lay=dlay,
                                                log=("src", "dst"), chk=("pipeline", "ret_ok", "copy", "outside", "srcsame")))
    # one dimension unchanged: no resampling along it
    g = 0
    dims = [(6, 5, 6, 3), (6, 5, 6, 9), (6, 5, 4, 5), (6, 5, 11, 5), (3, 8, 3, 2), (9, 2, 4, 2)]
    for pt in rz.ALL_PT:
        for (sw, sh, dw, dh) in dims:
            for (alg, flt, m) in [("conv", "Lanczos3", 1), ("conv", "Box", 1), ("interp", "CatmullRom", 1), ("ss", "Bilinear", 2)]:
                g += 1
                if tier == "quick" and g % 2:
                    continue
                axis = 0 if dw == sw else 1          # unchanged axis: 0 = columns keep their identity
                j = rng.randint(0, (sw if axis == 0 else sh) - 1)
                base = tags(pt, sw, sh, rng)
                other = list(base)
                nc = rz.PT[pt]["nc"]
                alt = tags(pt, sw, sh, rng)
                for y in range(sh):
                    for x in range(sw):
                        if (x if axis == 0 else y) == j:
                            for k in range(nc):
                                i = (y * sw + x) * nc + k
                                other[i] = alt[(i * 7 + 3) % len(alt)]
                cpu = rz.pick(g, 113, rz.CPUS)
                for content, chk in ((base, ("pipeline", "ret_ok", "outside")), (other, ("pipeline", "ret_ok", "same_except"))):
                    cases.append(rz.resize_case(pt, sw, sh, dw, dh, alg=alg, flt=flt, m=m, alpha=False, cpu=cpu,
                                                src_c={"g": "data", "v": content}, log=("dst",), chk=chk, g=10000 + g,
                                                echo={"skip": [axis, j]}))
    # one dimension unchanged under an integer crop with a non-zero origin: the kernels of the remaining pass get the crop's
    # row (column) offset; destination row y must depend on source row top + y only -- for every row of the destination, so
    # that the leftover rows of unrolled loops (every residue of the height modulo 4 / 8) and every back-end are included
    for pt in rz.ALL_PT:
        for n_same in (5, 6, 7, 8, 9, 3):
            for rows_same in (True, False):
                for cpu in rz.CPUS:
                    g += 1
                    if tier == "quick" and rz.pick(g, 304, [0, 1, 1]):
                        continue
                    o_same, o_other = rz.pick(g, 305, [1, 2, 3, 5]), rz.pick(g, 306, [0, 1, 2])
                    n_other, d_other = rz.pick(g, 307, [(6, 4), (6, 9), (7, 3), (4, 11)])
                    (alg, flt, m) = rz.pick(g, 308, [("conv", "Bilinear", 1), ("conv", "Lanczos3", 1), ("interp", "CatmullRom", 1), ("conv", "Box", 1)])
                    if rows_same:      # height kept, width resampled: horizontal pass with a row offset
                        sw, sh = o_other + n_other + rz.pick(g, 309, [0, 2]), o_same + n_same + rz.pick(g, 310, [0, 1, 4])
                        box, dw, dh, axis = (o_other, o_same, n_other, n_same), d_other, n_same, 1
                    else:              # width kept, height resampled: vertical pass with a column offset
                        sw, sh = o_same + n_same + rz.pick(g, 310, [0, 1, 4]), o_other + n_other + rz.pick(g, 309, [0, 2])
                        box, dw, dh, axis = (o_same, o_other, n_same, n_other), n_same, d_other, 0
                    base = tags(pt, sw, sh, rng)
                    alt = tags(pt, sw, sh, rng)
                    nc = rz.PT[pt]["nc"]
                    variants = [(base, ("pipeline", "ret_ok", "outside"), None)]
                    for j in range(n_same):
                        other = list(base)
                        for y in range(sh):
                            for x in range(sw):
                                if (x if axis == 0 else y) == o_same + j:
                                    for k in range(nc):
                                        i = (y * sw + x) * nc + k
                                        other[i] = alt[(i * 7 + 3) % len(alt)]
                        variants.append((other, ("pipeline", "ret_ok", "same_except"), j))
                    for (content, chk, j) in variants:
                        cases.append(rz.resize_case(pt, sw, sh, dw, dh, alg=alg, flt=flt, m=m, alpha=False, box=box, Q=1, cpu=cpu,
                                                    src_c={"g": "data", "v": content}, log=("dst",), chk=chk, g=10000 + g,
                                                    echo={"skip": [axis, j if j is not None else 0]}))
    # the complete pass-planning table: per axis {integer, fractional} origin x {equal, different} extent -- a pass is needed
    # unless the origin is an integer and the extent unchanged; the logged plan must agree (pipeline) for all 16 combinations
    Q = 4
    def axis(kind, n_src, n_dst):
        """(origin, extent) in quarter pixels for an axis of n_src source pixels resampled to n_dst"""
        if kind == "int_eq":
            return (Q, Q * n_dst)
        if kind == "frac_eq":
            return (Q + 2, Q * n_dst)
        if kind == "int_ne":
            return (Q, Q * n_dst + Q)
        return (Q + 1, Q * n_dst + 3)
    kinds = ("int_eq", "frac_eq", "int_ne", "frac_ne")
    for pt in rz.ALL_PT:
        for hx in kinds:
            for vy in kinds:
                for (alg, flt, m) in (("conv", "Bilinear", 1), ("interp", "CatmullRom", 1), ("ss", "Box", 1)):
                    g += 1
                    if tier == "quick" and rz.pick(g, 301, [0, 1]):
                        continue
                    dw, dh = 5, 6
                    sw, sh = dw + 4, dh + 4
                    (l, w_) = axis(hx, sw, dw)
                    (t, h_) = axis(vy, sh, dh)
                    cases.append(rz.resize_case(pt, sw, sh, dw, dh, alg=alg, flt=flt, m=m, alpha=rz.pick(g, 302, [True, False]), box=(l, t, w_, h_), Q=Q,
                                                cpu=rz.pick(g, 303, rz.CPUS), src_c={"g": "data", "v": tags(pt, sw, sh, rng)}, log=("src", "dst"),
                                                chk=("pipeline", "ret_ok", "outside") + (("copy",) if hx == "int_eq" and vy == "int_eq" else ())))
    # SuperSampling whose intermediate image has exactly the destination's size (factor > 1.2, m = 1)
    for pt in rz.ALL_PT:
        for (sw, sh, dw, dh) in [(8, 6, 4, 3), (9, 6, 3, 2), (10, 10, 5, 5), (6, 2, 3, 1), (4, 4, 2, 2)]:
            for alpha in (False, True):
                if alpha and not rz.PT[pt]["alpha"]:
                    continue
                g += 1
                cont = tags(pt, sw, sh, rng)
                if alpha:
                    nc = rz.PT[pt]["nc"]
                    mx = {"u8": 255, "u16": 65535}.get(rz.PT[pt]["comp"])
                    for p in range(sw * sh):
                        cont[p * nc + nc - 1] = mx if mx else rz.f32bits(1.0)
                cases.append(rz.resize_case(pt, sw, sh, dw, dh, alg="ss", flt="Lanczos3", m=1, alpha=alpha, cpu=rz.pick(g, 114, rz.CPUS),
                                            src_c={"g": "data", "v": cont}, log=("src", "dst"),
                                            chk=("pipeline", "ret_ok", "near", "outside", "srcsame")))
    return cases


def report(res, prop, bad):
    for (c, r, reason) in bad:
        d = rz.describe(c)
        res.violation(what="%s %s" % (prop, reason), reason=reason, ret=r.get("ret"), alg=d.get("alg", d.get("op", d.get("ctl"))), pt=d.get("pt"), m=d.get("m"),
                      alpha=d.get("alpha"), cpu=d.get("cpu"), case=d,
                      ss_same_size=(d.get("alg") == "ss"), hooks=[h["k"] for h in r.get("hooks", [])][:30])


def run(res, tier, seed):
    rng = random.Random(seed)
    for cfg, what in (("MC_Resizer.cfg", "pipeline, all single calls of the alphabet"),
                      ("MC_Resizer_hist.cfg", "histories of 3 calls, reduced alphabet")):
        r = vlib.run_tlc_mc("MC_Resizer", cfg=cfg, workers=8)
        res.add_mc(r, what)
        if not r["ok"]:
            res.violation(what="MC_Resizer invariant violated (%s)" % cfg, detail=r["error"])
    r = vlib.run_tlc_mc("MC_Resizer", cfg="MC_Resizer_pinned.cfg", workers=4)
    res.add_mc(r, "witness: if the (no pass, no pass) plan does nothing, Written is violated (expected counter-example)")
    if r["ok"]:
        raise vlib.ToolError("MC_Resizer_pinned: expected counter-example not found")
    cases = gen(tier, rng)
    bad, recs = rz.run_resize_trace(res, "c12", cases)
    report(res, "C12", bad)
    res.samples = [rz.describe(c) for c in (cases[0], cases[len(cases) // 2], cases[-1])]
    res.cov["cases"] = len(cases)
