"""C02 -- SIMD back-ends compute the same image as the portable back-end.

Spec: MC_Backends (every chunking scheme of the x86 kernels consumes every tap / lane exactly once for every length, so a SIMD
kernel computes the same integer sum as the portable loop) and the group memo of ResizeChecks with the statement's tolerance
classes (integers exact; 16-bit alpha divide and alpha-aware resize of U16x2/U16x4 +-1; floats within a few ulp except under
cancellation). Conformance: every residue of width / kernel length / row count modulo the vector widths, all filters, custom
filters forcing other fixed-point precisions, alpha on/off, alpha operations; each case on {None, Sse4_1, Avx2}."""
import random
import vlib, rz
from props.c12 import report


def content(pt, kind, seed):
    info = rz.PT[pt]
    if kind == "rand":
        return {"g": "rand", "seed": seed, "flo": -1.0, "fhi": 2.0}
    if kind == "max":
        if info["comp"] == "f32":
            return {"g": "const", "v": [rz.f32bits(1.0)]}
        return {"g": "const", "v": [info["max"]]}
    if kind == "narrow":
        if info["comp"] == "f32":
            return {"g": "rand", "seed": seed, "flo": 0.999, "fhi": 1.0}
        return {"g": "rand", "seed": seed, "lo": info["max"] - 3 if info["comp"] != "i32" else info["max"] - 1000, "hi": info["max"]}
    return {"g": "rand", "seed": seed, "lo": 0, "hi": 1 if info["comp"] != "f32" else 0, "flo": 0.0, "fhi": 1e-3}


KIND_MAG = {"rand": 2.0, "max": 1.0, "narrow": 1.0, "tiny": 1e-3, "alpha": 1.0, "runs": 1.0}


def fcontent(pt, kind, seed, w, h, alpha):
    """float images resized with alpha handling: colours in [0, 1], alpha in [0.5, 1] (the divide by a resampled alpha that
    cancels to ~0 amplifies any rounding difference without bound; that regime is C01's, judged with exact arithmetic)"""
    info = rz.PT[pt]
    if kind == "runs" and not (alpha and info["alpha"] and info["comp"] == "f32"):
        # rows made of runs (1..20 pixels) that are constant zero / constant maximum / another constant / noise: whole SIMD
        # vectors of equal or extreme values next to mixed ones (data-dependent shortcuts of a kernel)
        r = random.Random(seed)
        nc = info["nc"]
        isf = info["comp"] == "f32"
        lo, hi = (0, 0) if isf else ((-2 ** 31, 2 ** 31 - 1) if info["comp"] == "i32" else (0, info["max"]))
        vals = []
        left, mode, const = 0, 0, None
        for _ in range(w * h):
            if left == 0:
                left = r.randint(1, 20)
                mode = r.choice([0, 1, 2, 3, 3])
                const = [(r.random() if isf else r.randint(lo, hi)) for _ in range(nc)]
            left -= 1
            if mode == 0:
                px = [0.0 if isf else (lo if info["comp"] == "i32" else 0)] * nc
            elif mode == 1:
                px = [1.0 if isf else hi] * nc
            elif mode == 2:
                px = const
            else:
                px = [(r.random() if isf else r.randint(lo, hi)) for _ in range(nc)]
            vals += [rz.f32bits(x) for x in px] if isf else px
        return {"g": "data", "v": vals}, "runs"
    if not (alpha and info["alpha"] and info["comp"] == "f32"):
        return content(pt, "rand" if kind == "runs" else kind, seed), ("rand" if kind == "runs" else kind)
    r = random.Random(seed)
    nc = info["nc"]
    vals = []
    for _ in range(w * h):
        vals += [rz.f32bits(r.random()) for _ in range(nc - 1)] + [rz.f32bits(0.5 + 0.5 * r.random())]
    return {"g": "data", "v": vals}, "alpha"


def tol_class(pt, alpha, kind="rand", sumabs=1.5):
    """tolerance class of the statement. Floats: "the f32 rounding of a re-associated f64 sum" is relative to the magnitude of
    the summed terms, not of a result that cancels: a difference of `ulps` units at the magnitude M = max|source| * (sum|w|)^2
    (biased exponent mexp) is allowed, i.e. ulps * 2^(mexp - exponent(result)) units of the result"""
    info = rz.PT[pt]
    if info["comp"] == "f32":
        import math
        mag = KIND_MAG[kind] * sumabs * sumabs
        return ("memo_f32", ("dst",), {"ulps": 16 if alpha and info["alpha"] else 4, "thr": rz.f32key(2.0 * 2.0 ** -18),
                                       "mexp": 127 + int(math.floor(math.log2(mag)))})
    if pt in ("U16x2", "U16x4") and alpha:
        return ("memo_pm1", ("dst",), {})
    return ("memo_exact", ("digest",), {})


def gen(tier, rng):
    cases = []
    g = 0
    dws = list(range(1, 13)) + [15, 16, 17, 23, 31, 32, 33, 47, 63, 64, 65, 70]
    factors = [(1, 3), (1, 2), (2, 3), (1, 1), (3, 2), (2, 1), (5, 2), (3, 1), (4, 1), (9, 2), (5, 1), (7, 1), (8, 1), (10, 1)]
    filters = rz.BUILTIN
    n = 0
    for pt in rz.ALL_PT:
        for dw in dws:
            for (fn, fd) in factors:
                n += 1
                if tier == "quick" and n % 4:
                    continue
                sw = max(1, (dw * fn + fd // 2) // fd)
                dh = 1 + n % 9
                mode = n % 3            # 0 horizontal only, 1 vertical only, 2 both
                flt = filters[n % 7]
                alg = rz.pick(n, 133, ["conv", "conv", "interp", "ss"])
                alpha = (n // 3) % 2 == 0
                if mode == 0:
                    geo = (sw, dh, dw, dh)
                elif mode == 1:
                    geo = (dh, sw, dh, dw)
                else:
                    geo = (sw, max(1, (dh * fn + fd - 1) // fd), dw, dh)
                kind = rz.pick(n, 134, ["rand", "rand", "max", "narrow", "tiny", "runs", "runs"])
                box = None
                Q = 1
                if n % 7 == 0 and geo[0] >= 3 and geo[1] >= 2:
                    Q = 2
                    box = (1, 1, 2 * geo[0] - 2, 2 * geo[1] - 1)
                cont, kind = fcontent(pt, kind, n, geo[0], geo[1], alpha)
                chk, log, echo = tol_class(pt, alpha, kind)
                g += 1
                for cpu in rz.CPUS:
                    cases.append(rz.resize_case(pt, geo[0], geo[1], geo[2], geo[3], alg=alg, flt=flt, m=1 + n % 3, alpha=alpha, box=box, Q=Q,
                                                cpu=cpu, src_c=cont, src_lay={"k": "image_ref", "guard": 1},
                                                dst_lay={"k": "slice", "guard": 1}, log=log,
                                                chk=("pipeline", "ret_ok", "outside") + ((chk,) if cpu != "none" else ()), g=g, echo=echo))
    # single-pass plans with a non-zero row / column offset (integer crop origin, one extent unchanged): the kernels'
    # `offset` argument and their 4-row / 2-row block iterators start inside the source
    for pt in rz.ALL_PT:
        for (dw, dh) in ((5, 5), (9, 6), (16, 7), (33, 3), (3, 9), (70, 2)):
            for plan in ("h", "v"):
                for flt in ("Lanczos3", "Bilinear", "Box", "CatmullRom"):
                    n += 1
                    if tier == "quick" and n % 2:
                        continue
                    off = 1 + n % 3
                    if plan == "h":
                        box = (off, 1 + n % 4, dw * 2 + 1 if n % 2 else max(1, dw // 2), dh)
                    else:
                        box = (1 + n % 4, off, dw, dh * 2 + 1 if n % 2 else max(1, dh // 2))
                    sw, sh = box[0] + box[2] + 1 + n % 2, box[1] + box[3] + n % 3
                    alpha = n % 3 == 0
                    cont, kind = fcontent(pt, "rand", n, sw, sh, alpha)
                    chk, log, echo = tol_class(pt, alpha, kind)
                    g += 1
                    for cpu in rz.CPUS:
                        cases.append(rz.resize_case(pt, sw, sh, dw, dh, alg=rz.pick(n, 135, ["conv", "interp"]), flt=flt, alpha=alpha, box=box, Q=1, cpu=cpu,
                                                    src_c=cont, src_lay={"k": "image_ref", "guard": 1},
                                                    dst_lay={"k": "crop_mut", "pad": [1, 1, 1, 2], "guard": 1} if n % 2 else {"k": "slice", "guard": 1},
                                                    log=log, chk=("pipeline", "ret_ok", "outside") + ((chk,) if cpu != "none" else ()), g=g, echo=echo))
    if tier != "quick":
        for i in range(8000):
            kw = rz.random_resize_kw(rng, maxdim=70)
            g += 1
            seed = rng.randint(1, 10 ** 9)
            kind = rng.choice(["rand", "rand", "max", "narrow", "tiny", "runs", "runs"])
            cont, kind = fcontent(kw["pt"], kind, seed, kw["sw"], kw["sh"], kw["alpha"])
            chk, log, echo = tol_class(kw["pt"], kw["alpha"], kind)
            for cpu in rz.CPUS:
                cases.append(rz.resize_case(kw["pt"], kw["sw"], kw["sh"], kw["dw"], kw["dh"], alg=kw["alg"], flt=kw["flt"], m=kw["m"], alpha=kw["alpha"],
                                            box=kw["box"], Q=kw["Q"], cpu=cpu, src_c=cont, src_lay={"k": "image_ref", "guard": 1},
                                            dst_lay={"k": "slice", "guard": 1}, log=log,
                                            chk=("pipeline", "ret_ok", "outside") + ((chk,) if cpu != "none" else ()), g=g, echo=echo))
    # custom filters that force other fixed-point precisions (sum |w| < 4: max weight 1 + 2a)
    for pt in ("U8", "U8x2", "U8x3", "U8x4", "U16", "U16x2", "U16x3", "U16x4"):
        for ai, a in enumerate((0.0, 0.2, 0.45, 0.7)):
            for (sw, sh, dw, dh) in ((9, 5, 9, 5 + 1), (17, 3, 33, 3), (6, 6, 13, 11), (33, 2, 35, 2)):
                g += 1
                chk, log, echo = tol_class(pt, False)
                for cpu in rz.CPUS:
                    c = rz.resize_case(pt, sw, sh, dw, dh, alg="interp", flt="c_lobes", alpha=False, cpu=cpu, support=(3, 2),
                                       src_c=content(pt, "rand", g), src_lay={"k": "image_ref", "guard": 1}, dst_lay={"k": "slice", "guard": 1},
                                       log=log, chk=("ret_ok", "outside") + ((chk,) if cpu != "none" else ()), g=g, echo=echo)
                    c["opt"]["fparam"] = {"n": int(a * 64), "q": 64}
                    cases.append(c)
    # alpha multiply / divide, two-image and in-place
    for pt in ("U8x2", "U8x4", "U16x2", "U16x4", "F32x2", "F32x4"):
        info = rz.PT[pt]
        for op in ("mul", "div", "mul_inplace", "div_inplace"):
            for w in ((1, 2, 3, 4, 5, 7, 8, 9, 15, 16, 17, 31, 33, 64, 65) if tier == "quick" else range(1, 71)):
                g += 1
                seed = rng.randint(1, 10 ** 9)
                cont = {"g": "rand", "seed": seed, "flo": 0.0, "fhi": 1.0}
                if info["comp"] == "f32":
                    chk, log, echo = ("memo_f32" if op.startswith("div") else "memo_exact"), ("dst",), {"ulps": 2, "thr": 0}
                elif info["comp"] == "u16" and op.startswith("div"):
                    chk, log, echo = "memo_pm1", ("dst",), {}
                else:
                    chk, log, echo = "memo_exact", ("digest",), {}
                for cpu in rz.CPUS:
                    cases.append(rz.img_case(op, pt, w, 3, src_c=cont, dst_c=cont if op.endswith("_inplace") else None,
                                             src_lay={"k": "image_ref", "guard": 1}, dst_lay={"k": "slice", "guard": 1}, cpu=cpu, log=log,
                                             chk=("ret_ok", "outside") + ((chk,) if cpu != "none" else ()), g=g, echo=echo))
                # runs of transparent black / saturated / opaque / transparent pixels: whole vectors all zero, all opaque, mixed
                g += 1
                cont3 = {"g": "data", "v": rz.runs_pixels(pt, w * 3, random.Random(seed + 2))}
                for cpu in rz.CPUS:
                    cases.append(rz.img_case(op, pt, w, 3, src_c=cont3, dst_c=cont3 if op.endswith("_inplace") else None,
                                             src_lay={"k": "image_ref", "guard": 1}, dst_lay={"k": "slice", "guard": 1}, cpu=cpu, log=log,
                                             chk=("ret_ok", "outside") + ((chk,) if cpu != "none" else ()), g=g, echo=echo))
                if info["comp"] != "f32":
                    # adversarial pairs: tiny and extreme alphas under full-range colours (quotients far beyond the range)
                    g += 1
                    r2 = random.Random(seed + 1)
                    mx, nc = info["max"], info["nc"]
                    vals = []
                    run_left, run_a = 0, 0
                    for _ in range(w * 3):
                        if run_left == 0:          # alpha in runs of 1..9 equal values: whole vectors opaque / transparent / mixed
                            run_left = r2.randint(1, 9)
                            run_a = r2.choice([0, 1, 1, 2, 3, 254, 255, mx - 1, mx, mx, mx])
                        run_left -= 1
                        vals += [r2.choice([r2.randint(0, mx), mx, mx // 2 + 1, mx // 2 + 2]) for _ in range(nc - 1)] + [run_a]
                    cont2 = {"g": "data", "v": vals}
                    for cpu in rz.CPUS:
                        cases.append(rz.img_case(op, pt, w, 3, src_c=cont2, dst_c=cont2 if op.endswith("_inplace") else None,
                                                 src_lay={"k": "image_ref", "guard": 1}, dst_lay={"k": "slice", "guard": 1}, cpu=cpu, log=log,
                                                 chk=("ret_ok", "outside") + ((chk,) if cpu != "none" else ()), g=g, echo=echo))
    return cases


def run(res, tier, seed):
    rng = random.Random(seed)
    r = vlib.run_tlc_mc("MC_Backends", workers=8)
    res.add_mc(r, "chunking schemes of the SSE4.1/AVX2 kernels: every tap / lane / row consumed exactly once for every length 0..70")
    if not r["ok"]:
        res.violation(what="MC_Backends invariant violated", detail=r["error"])
    cases = gen(tier, rng)
    bad, recs = rz.run_resize_trace(res, "c02", cases, xmx="16g")
    report(res, "C02", bad)
    res.samples = [rz.describe(c) for c in (cases[0], cases[1], cases[2], cases[-1])]
    res.cov["cases"] = len(cases)
    res.cov["back_ends"] = rz.CPUS
    res.assumptions += ["NEON and WASM SIMD128 kernels cannot be executed on this host",
                        "integer images compared through two 31-bit digests; 16-bit alpha divide +-1; floats within 4 ulp or below the cancellation threshold"]
