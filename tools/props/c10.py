"""C10 -- a uniform image stays uniform: weights form a partition of unity.

Spec: FixedPoint.tla: with S = sum of the quantised coefficients of a window and precision p,
(2^(p-1) + v S) >> p = v for every component value v in 0..max  iff  |S - 2^p| * max < 2^(p-1)  (MC_FixedPoint at reduced
depth, lemmas/FixedLemmas at full depth). This reduces C10 to an integer fact about each window. Conformance: (a) the quantised
coefficient tables of the real normalisers are dumped through the read-only hook for a lattice of geometries incl. extreme scales
(kernel lengths 1 .. several thousand) and all 7 filters, and TLC checks the band for every window (TraceCoeffs) -- this covers
every component value at once; (b) constant images at every 8-bit value / extremes of the wider types through the three algorithms
and back-ends: the per-plane (min, max) projection must be (v, v)."""
import random
import vlib, rz, coeffs
from props.c12 import report


def gen_pixels(tier, rng):
    cases = []
    geoms = [(9, 7, 4, 3), (4, 4, 11, 9), (33, 3, 7, 2), (3, 33, 2, 8), (16, 16, 5, 5), (64, 2, 3, 2), (2, 2, 31, 7), (100, 1, 7, 1), (7, 5, 7, 9)]
    algs = [("conv", 1), ("interp", 1), ("ss", 1), ("ss", 3)]
    n = 0
    for pt in rz.ALL_PT:
        info = rz.PT[pt]
        nc = info["nc"]
        if info["comp"] == "u8":
            values = list(range(256)) if tier != "quick" else [0, 1, 2, 127, 128, 254, 255] + [rng.randint(3, 253) for _ in range(12)]
        elif info["comp"] == "u16":
            values = [0, 1, 255, 256, 32767, 32768, 65534, 65535] + [rng.randint(0, 65535) for _ in range(8)]
        elif info["comp"] == "i32":
            values = [-2 ** 31, -2 ** 31 + 1, -1, 0, 1, 2 ** 24 + 1, 2 ** 31 - 2, 2 ** 31 - 1] + [rng.randint(-2 ** 31, 2 ** 31 - 1) for _ in range(6)]
        else:
            values = [rz.f32bits(x) for x in (0.0, 1.0, -1.0, 0.1, 0.3333333, 1e-20, 3e20, 0.9999999)] + [rz.f32bits(rng.uniform(-2, 2)) for _ in range(6)]
        for v in values:
            for _ in range(2 if tier == "quick" else 4):
                n += 1
                (sw, sh, dw, dh) = rz.pick(n, 118, geoms)
                flt = rz.BUILTIN[n % 7]
                alg, m = algs[n % 4]
                comps = [v] * nc
                alpha = False
                if info["alpha"] and n % 2 == 0:
                    # alpha at its maximum: premultiply / divide are the identity
                    alpha = True
                    comps[-1] = info["max"] if info["comp"] != "f32" else rz.f32bits(1.0)
                keys = [rz.f32key(__import__("struct").unpack("<f", __import__("struct").pack("<I", c))[0]) for c in comps] if info["comp"] == "f32" else comps
                box, Q = (None, 1) if n % 4 else ((1, 1, 2 * sw - 2, 2 * sh - 1), 2)
                cases.append(rz.resize_case(pt, sw, sh, dw, dh, alg=alg, flt=flt, m=m, alpha=alpha, box=box, Q=Q, cpu=rz.pick(n, 117, rz.CPUS),
                                            src_c={"g": "const", "v": comps}, log=("minmax",),
                                            chk=("pipeline", "ret_ok", "uniform_mm_ulp1" if info["comp"] == "f32" else "uniform_mm"),
                                            echo={"v": keys}))
    # bright (and dark) values through long windows of the filters with negative lobes, on every back-end: the partial sums
    # of such a window pass the final value on the way (a shortcut that stops accumulating early shows here)
    for pt in ("U8", "U8x2", "U8x3", "U8x4", "U16", "U16x3"):
        info = rz.PT[pt]
        mx = info["max"]
        for v in (mx - 1, mx - 4, mx - 10, mx - 19, 1, 3):
            for flt in ("Lanczos3", "CatmullRom", "Mitchell"):
                for (sw, sh, dw, dh) in ((64, 2, 3, 2), (3, 48, 3, 2), (100, 3, 7, 3)):
                    n += 1
                    if tier == "quick" and rz.pick(n, 119, [0, 1, 1]):
                        continue
                    for cpu in rz.CPUS:
                        cases.append(rz.resize_case(pt, sw, sh, dw, dh, alg="conv", flt=flt, m=1, alpha=False, cpu=cpu,
                                                    src_c={"g": "const", "v": [v] * info["nc"]}, log=("minmax",),
                                                    chk=("pipeline", "ret_ok", "uniform_mm"), echo={"v": [v] * info["nc"]}))
    return cases


def run(res, tier, seed):
    rng = random.Random(seed)
    r = vlib.run_tlc_mc("MC_FixedPoint", workers=8)
    res.add_mc(r, "constant in => constant out iff |S - 2^p| * max < 2^(p-1), reduced depth, all coefficient vectors")
    if not r["ok"]:
        res.violation(what="MC_FixedPoint invariant violated", detail=r["error"])
    for inv in ("UniformIff8", "UniformIff16"):
        a = vlib.run_apalache("FixedLemmas", inv)
        res.add_lemma(a, "NoError", "full depth: (2^(p-1) + v S) >> p = v for all v  <=>  |S - 2^p| * max < 2^(p-1)")
        if a["result"] != "NoError":
            raise vlib.ToolError("lemma FixedLemmas!%s: %s" % (inv, a["result"]))
    # (a) coefficient tables
    ccases = coeffs.lattice(tier, rng, purpose="unity")
    bad = coeffs.run_coeff_trace(res, "c10", ccases)
    for (c, r, reason) in bad:
        res.violation(what="C10 coefficients " + reason, reason=reason, filter=c["filter"], geom=[c["in"], c["out"]], norm=c.get("norm"), case=coeffs.describe(c))
    # (b) pixels
    cases = gen_pixels(tier, rng)
    bad, recs = rz.run_resize_trace(res, "c10", cases)
    report(res, "C10", bad)
    res.samples = [coeffs.describe(ccases[0]), coeffs.describe(ccases[-1]), rz.describe(cases[0]), rz.describe(cases[-1])]
    res.cov["coefficient_tables"] = len(ccases)
    res.cov["uniform_resizes"] = len(cases)
