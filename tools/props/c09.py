"""C09 -- a reused Resizer behaves exactly like a fresh one.

Spec: Resizer (scratch-buffer life cycle: grow-only lengths, alignment gap, buffers moved out and put back, NoStaleRead,
Canonical independent of the buffers); MC_Resizer_hist explores all 3-call histories of a reduced alphabet. Conformance:
seeded histories (pixel sizes 1..16, alignments 1/2/4, larger-then-smaller sizes, all algorithms, alpha on/off, erroring calls,
reset_internal_buffers, clone) run on long-lived Resizers; every call is also run on a fresh Resizer. TLC replays each
history through the specification: the logged buffer lengths before/after every temporary image must equal the model's
(per slot), the hook sequence must be allowed, and the reused result must equal the fresh one."""
import random
import vlib, rz
from props.c12 import report


def rand_call(rng, big):
    pt = rng.choice(rz.ALL_PT)
    lim = 28 if big else 9
    sw, sh = rng.randint(1, lim), rng.randint(1, lim)
    dw, dh = rng.randint(1, lim), rng.randint(1, lim)
    alg, flt, m = rng.choice([("nearest", "Box", 1), ("conv", "Lanczos3", 1), ("conv", "Box", 1), ("conv", "Bilinear", 1),
                              ("conv", "CatmullRom", 1), ("interp", "Mitchell", 1), ("interp", "Gaussian", 1),
                              ("ss", "Hamming", 1), ("ss", "Lanczos3", 2), ("ss", "Bilinear", 3)])
    Q = 2
    r = rng.random()
    if r < 0.45:
        box = None
    elif r < 0.75:
        l = rng.randint(0, Q * sw - 1)
        t = rng.randint(0, Q * sh - 1)
        box = (l, t, rng.randint(1, Q * sw - l), rng.randint(1, Q * sh - t))
    elif r < 0.85:
        box = (0, 0, Q * dw, Q * dh) if dw <= sw and dh <= sh else None       # copy fast path
    elif r < 0.93:
        box = (Q, Q, Q * sw, Q * sh)                                           # rejected
    else:
        box = (0, 0, 0, Q * sh)                                                # zero area: no-op
    return dict(pt=pt, sw=sw, sh=sh, dw=dw, dh=dh, alg=alg, flt=flt, m=m, alpha=rng.random() < 0.6, box=box, Q=Q,
                cpu=rng.choice(rz.CPUS))


def growth_histories(tier):
    """scratch buffers that grow a little at a time: a Vec that was enlarged by amortised doubling has spare capacity, so the
    next slightly larger request is where "is the buffer big enough" answered with the wrong length shows (slices beyond the
    initialised length, stale or missing premultiplied rows); shrinking and growing again in between. One list of calls
    per (pixel type, algorithm): every call needs more of the alpha / first-pass / super-sampling buffer than the one before."""
    out = []
    pts = ("U8x4", "U8x3", "U16x2", "F32", "U8x2", "U16x4", "I32", "F32x4") if tier == "quick" else \
        ("U8", "U8x2", "U8x3", "U8x4", "U16", "U16x2", "U16x3", "U16x4", "I32", "F32", "F32x2", "F32x3", "F32x4")
    for i, pt in enumerate(pts):
        for (alg, flt, m) in (("conv", "Bilinear", 1), ("conv", "Lanczos3", 1), ("ss", "Box", 2), ("interp", "CatmullRom", 1)):
            for (num, den) in ((5, 4), (4, 3), (3, 2)) if tier != "quick" else ((5, 4), (3, 2)):
                if tier == "quick" and (i + num + len(flt)) % 2:
                    continue
                w, hist = 8 + i, []
                for k in range(9):
                    hist.append(w)
                    w = max(w + 1, w * num // den)
                hist = hist[:6] + [hist[1], hist[0]] + hist[6:] + [hist[-1] + 1, hist[-1] + 2]
                calls = []
                for k, w in enumerate(hist):
                    sh = 6 + (i + k) % 3
                    if k % 4 == 3:          # the other axis grows instead (transposed sizes: same buffer lengths, other plan)
                        calls.append(dict(pt=pt, sw=sh, sh=w, dw=max(1, sh - 2), dh=max(1, w * 2 // 3), alg=alg, flt=flt, m=m))
                    else:
                        calls.append(dict(pt=pt, sw=w, sh=sh, dw=max(1, w * 2 // 3), dh=max(1, sh - 2), alg=alg, flt=flt, m=m))
                out.append(calls)
    return out


def gen(tier, rng):
    cases = []
    g = 0
    nhist = 120 if tier == "quick" else 1500
    slot = 0
    for hnum in range(nhist):
        slot += 1
        live = [slot]
        length = rng.randint(3, 12)
        cases.append(rz.ctl_case(slot, "new"))
        prev = []
        for step in range(length):
            s = rng.choice(live)
            r = rng.random()
            if r < 0.08:
                cases.append(rz.ctl_case(s, "reset"))
                continue
            if r < 0.14 and len(live) < 3:
                slot += 1
                cases.append(rz.ctl_case(s, "clone", to=slot))
                live.append(slot)
                continue
            # near-repeats: an earlier call of this history with exactly one argument changed (what a cache keyed on too
            # little would confuse): crop origin, filter, alpha flag, algorithm, destination size, pixel type, content only
            if prev and rng.random() < 0.4:
                kw = dict(rng.choice(prev))
                what = rng.choice(["origin", "origin", "origin", "filter", "alpha", "alg", "dst", "pt", "content", "cpu"])
                Q = kw["Q"]
                if what == "origin":
                    full = kw["box"] is None or (kw["box"][2] >= Q * kw["sw"] and kw["box"][3] >= Q * kw["sh"])
                    if full:
                        # first make room: a box one pixel smaller than the source ...
                        bw = max(1, Q * kw["sw"] - Q)
                        bh = max(1, Q * kw["sh"] - Q)
                    else:
                        # ... then the SAME box size at another origin
                        bw, bh = min(kw["box"][2], Q * kw["sw"]), min(kw["box"][3], Q * kw["sh"])
                    kw["box"] = (rng.randint(0, Q * kw["sw"] - bw), rng.randint(0, Q * kw["sh"] - bh), bw, bh)
                elif what == "filter":
                    kw["flt"] = rng.choice(rz.BUILTIN)
                elif what == "alpha":
                    kw["alpha"] = not kw["alpha"]
                elif what == "alg":
                    kw["alg"], kw["m"] = rng.choice([("conv", 1), ("interp", 1), ("ss", 1), ("ss", 2), ("nearest", 1)])
                elif what == "dst":
                    kw["dw"] = max(1, kw["dw"] + rng.choice([-1, 1]))
                elif what == "pt":
                    kw["pt"] = rng.choice(rz.ALL_PT)
                elif what == "cpu":
                    kw["cpu"] = rng.choice(rz.CPUS)
            else:
                kw = rand_call(rng, big=(step % 3 == 0))
            prev.append(dict(kw))
            g += 1
            seed = rng.randint(1, 10 ** 9)
            base = ["pipeline", "no_panic", "outside", "srcsame"]
            for rzid in (-1, s):
                chk = base + (["memo_exact"] if rzid >= 0 else [])
                cases.append(rz.resize_case(kw["pt"], kw["sw"], kw["sh"], kw["dw"], kw["dh"], alg=kw["alg"], flt=kw["flt"], m=kw["m"],
                                            alpha=kw["alpha"], box=kw["box"], Q=kw["Q"], cpu=kw["cpu"], rz=rzid,
                                            src_c={"g": "rand", "seed": seed, "flo": -1.0, "fhi": 2.0}, log=("digest",), chk=chk, g=g,
                                            sent=seed % 9973))
    # stale scratch content: a first call fills a scratch buffer (premultiplied image / super-sampling intermediate / first
    # pass) with bright data, the next call uses the SAME buffer size but needs only part of it (deep crop, strong
    # down-scale, other alpha setting): nothing of the first call may show
    for pt in ("U8x4", "U8x2", "U16x4", "U16x2", "F32x4", "F32x2", "U8", "U16x3"):
        for (sw, sh, box, dw, dh) in ((28, 24, (8, 6, 12, 12), 3, 3), (40, 9, (14, 3, 12, 3), 4, 3), (12, 30, (4, 10, 4, 9), 2, 3)):
            for (alg, flt, m) in (("conv", "Lanczos3", 1), ("conv", "Bilinear", 1), ("ss", "CatmullRom", 2)):
                if tier == "quick" and rz.pick(g, 131, [0, 1, 1]):
                    g += 1
                    continue
                slot += 1
                cases.append(rz.ctl_case(slot, "new"))
                cpu = rz.pick(g, 132, rz.CPUS)
                hist = [dict(box=None, dw=sw // 2, dh=sh // 2, alpha=True, bright=True),       # fills the buffers
                        dict(box=box, dw=dw, dh=dh, alpha=True, bright=False),                 # deep crop, strong down-scale
                        dict(box=box, dw=dw, dh=dh, alpha=False, bright=False),
                        dict(box=(box[0] + 1, box[1], box[2], box[3]), dw=dw, dh=dh, alpha=True, bright=False)]
                for hcall in hist:
                    g += 1
                    seed = rng.randint(1, 10 ** 9)
                    cont = {"g": "rand", "seed": seed, "flo": 0.9, "fhi": 1.0, "lo": rz.PT[pt]["max"] - 3, "hi": rz.PT[pt]["max"]} if hcall["bright"] and rz.PT[pt]["comp"] != "i32" \
                        else {"g": "rand", "seed": seed, "flo": 0.0, "fhi": 1.0}
                    for rzid in (-1, slot):
                        chk = ["pipeline", "no_panic", "outside", "srcsame"] + (["memo_exact"] if rzid >= 0 else [])
                        cases.append(rz.resize_case(pt, sw, sh, hcall["dw"], hcall["dh"], alg=alg, flt=flt, m=m, alpha=hcall["alpha"], box=hcall["box"], Q=1,
                                                    cpu=cpu, rz=rzid, src_c=cont, log=("digest",), chk=chk, g=g, sent=seed % 9973))
    # scratch buffers growing step by step (spare capacity after an amortised doubling), fresh resizer vs reused one
    for calls in growth_histories(tier):
        slot += 1
        cases.append(rz.ctl_case(slot, "new"))
        cpu = rz.pick(g, 133, rz.CPUS)
        for kw in calls:
            g += 1
            seed = rng.randint(1, 10 ** 9)
            for rzid in (-1, slot):
                chk = ["pipeline", "no_panic", "outside", "srcsame"] + (["memo_exact"] if rzid >= 0 else [])
                cases.append(rz.resize_case(kw["pt"], kw["sw"], kw["sh"], kw["dw"], kw["dh"], alg=kw["alg"], flt=kw["flt"], m=kw["m"], alpha=True,
                                            cpu=cpu, rz=rzid, src_c={"g": "rand", "seed": seed, "flo": 0.0, "fhi": 1.0}, log=("digest",), chk=chk, g=g,
                                            sent=seed % 9973))
    return cases


PS_PT = {1: "U8", 4: "U8x4", 6: "U16x3", 16: "F32x4"}
SUP_FLT = {(1, 2): "Box", (1, 1): "Bilinear", (2, 1): "CatmullRom", (3, 1): "Lanczos3"}      # model support sn/sd -> a filter with that support


def simulated_histories(res, n, seed):
    """spec -> implementation: TLC walks random behaviours of the Resizer specification (MC_ResizerSim, full call
    alphabet, 6 calls with resets) and prints each behaviour's call history; the histories are replayed below."""
    import subprocess, os, re, json, shutil, time
    md = vlib.workdir("tlc_sim")
    env = dict(os.environ, JAVA_TOOL_OPTIONS="-Xss512m -Xmx4g")
    t0 = time.time()
    p = subprocess.run(["java", "-XX:+UseParallelGC", "-cp", vlib.TLA_JAR, "tlc2.TLC", "-workers", "1", "-simulate", "num=%d" % n, "-depth", "250",
                        "-seed", str(seed), "-metadir", md, "-cleanup", "-noGenerateSpecTE", "-config", "MC_ResizerSim.cfg", "MC_ResizerSim.tla"],
                       cwd=vlib.SPEC, env=env, stdout=subprocess.PIPE, stderr=subprocess.STDOUT, text=True, timeout=1200)
    shutil.rmtree(md, ignore_errors=True)
    if "Error:" in p.stdout and "HIST" not in p.stdout:
        vlib.log(p.stdout[-2000:])
        raise vlib.ToolError("TLC simulation failed")
    hists = []
    for m in re.finditer(r'<<\s*"HIST",\s*"(.*?)"\s*>>', p.stdout, re.S):      # TLC wraps long tuples over several lines
        hists.append(json.loads(m.group(1).replace('\\"', '"')))
    # keep maximal histories only
    keys = [json.dumps(h) for h in hists]
    uniq = []
    for h, k in zip(hists, keys):
        if not any(k2 != k and k2.startswith(k[:-1]) for k2 in keys) and k not in [json.dumps(u) for u in uniq]:
            uniq.append(h)
    res.mc.append({"module": "MC_ResizerSim", "simulated_behaviours": n, "histories": len(uniq), "wall_s": round(time.time() - t0, 1),
                   "what": "TLC simulation of the Resizer specification; call histories replayed into the implementation"})
    return uniq


def cases_from_histories(hists, rng, slot0):
    cases = []
    g = 500000
    slot = slot0
    for h in hists:
        slot += 1
        cases.append(rz.ctl_case(slot, "new"))
        f = rng.choice([1, 1, 3, 7])          # scale the tiny model sizes (keeps all ratios)
        for a in h:
            if a["kind"] == "reset":
                cases.append(rz.ctl_case(slot, "reset"))
                continue
            pt = PS_PT[a["ps"]]
            sw, sh, dw, dh = a["sw"] * f, a["sh"] * f, a["dw"] * f, a["dh"] * f
            box = tuple(v * f for v in a["box"])
            Q = a["Q"]
            if a["kind"] == "zero":
                dw = 0
            elif a["kind"] == "badcrop":
                box = (Q, Q, sw * Q, sh * Q)
            g += 1
            seed = rng.randint(1, 10 ** 9)
            flt = SUP_FLT[(a["sn"], a["sd"])]
            cpu = rng.choice(rz.CPUS)            # the same back-end for the fresh and the reused run
            for rzid in (-1, slot):
                chk = ["pipeline", "no_panic", "outside", "srcsame"] + (["memo_exact"] if rzid >= 0 else [])
                cases.append(rz.resize_case(pt, sw, sh, dw, dh, alg=a["alg"], flt=flt, m=a["m"], alpha=a["useAlpha"], box=box, Q=Q,
                                            cpu=cpu, rz=rzid, src_c={"g": "rand", "seed": seed, "flo": 0.0, "fhi": 1.0},
                                            log=("digest",), chk=chk, g=g, sent=seed % 9973))
    return cases


def run(res, tier, seed):
    rng = random.Random(seed)
    for cfg, what in (("MC_Resizer.cfg", "pipeline, every single call of the alphabet"),
                      ("MC_Resizer_hist.cfg", "all histories of 3 calls with Reset, reduced alphabet: buffers grow-only, results canonical")):
        r = vlib.run_tlc_mc("MC_Resizer", cfg=cfg, workers=8)
        res.add_mc(r, what)
        if not r["ok"]:
            res.violation(what="MC_Resizer invariant violated (%s)" % cfg, detail=r["error"])
    if tier != "quick":
        r = vlib.run_tlc_mc("MC_Resizer", cfg="MC_Resizer_full.cfg", workers=12, timeout=14400)
        res.add_mc(r, "all histories of 2 calls over the full alphabet")
        if not r["ok"]:
            res.violation(what="MC_Resizer invariant violated (full)", detail=r["error"])
    cases = gen(tier, rng)
    hists = simulated_histories(res, 60 if tier == "quick" else 1500, seed)
    cases += cases_from_histories(hists, rng, 100000)
    res.cov["tlc_generated_histories"] = len(hists)
    bad, recs = rz.run_resize_trace(res, "c09", cases)
    report(res, "C09", bad)
    res.samples = [rz.describe(c) for c in cases[:14]]
    res.cov["cases"] = len(cases)
    res.cov["histories"] = 120 if tier == "quick" else 1500
    res.assumptions += ["results are compared through two 31-bit digests of the destination"]
