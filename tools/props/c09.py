"""C09 -- a reused Resizer behaves exactly like a fresh one.

Spec: Resizer (scratch-buffer life cycle: grow-only lengths, alignment gap, buffers moved out and put back, NoStaleRead,
Canonical independent of the buffers); MC_Resizer_hist explores all 3-call histories of a reduced alphabet. Conformance:
seeded histories (pixel sizes 1..16, alignments 1/2/4, larger-then-smaller sizes, all algorithms, alpha on/off, erroring calls,
reset_internal_buffers, clone) run on long-lived Resizers; every call is also run on a fresh Resizer. TLC replays each
history through the specification: the logged buffer lengths before/after every temporary image must equal the model's
(per slot), the hook sequence must be allowed, and the reused result must equal the fresh one."""
import random
import vlib, rz
from props.c12 import report


def rand_call(rng, big):
    pt = rng.choice(rz.ALL_PT)
    lim = 28 if big else 9
    sw, sh = rng.randint(1, lim), rng.randint(1, lim)
    dw, dh = rng.randint(1, lim), rng.randint(1, lim)
    alg, flt, m = rng.choice([("nearest", "Box", 1), ("conv", "Lanczos3", 1), ("conv", "Box", 1), ("conv", "Bilinear", 1),
                              ("conv", "CatmullRom", 1), ("interp", "Mitchell", 1), ("interp", "Gaussian", 1),
                              ("ss", "Hamming", 1), ("ss", "Lanczos3", 2), ("ss", "Bilinear", 3)])
    Q = 2
    r = rng.random()
    if r < 0.45:
        box = None
    elif r < 0.75:
        l = rng.randint(0, Q * sw - 1)
        t = rng.randint(0, Q * sh - 1)
        box = (l, t, rng.randint(1, Q * sw - l), rng.randint(1, Q * sh - t))
    elif r < 0.85:
        box = (0, 0, Q * dw, Q * dh) if dw <= sw and dh <= sh else None       # copy fast path
    elif r < 0.93:
        box = (Q, Q, Q * sw, Q * sh)                                           # rejected
    else:
        box = (0, 0, 0, Q * sh)                                                # zero area: no-op
    return dict(pt=pt, sw=sw, sh=sh, dw=dw, dh=dh, alg=alg, flt=flt, m=m, alpha=rng.random() < 0.6, box=box, Q=Q,
                cpu=rng.choice(rz.CPUS))


def gen(tier, rng):
    cases = []
    g = 0
    nhist = 120 if tier == "quick" else 1500
    slot = 0
    for hnum in range(nhist):
        slot += 1
        live = [slot]
        length = rng.randint(3, 12)
        cases.append(rz.ctl_case(slot, "new"))
        for step in range(length):
            s = rng.choice(live)
            r = rng.random()
            if r < 0.08:
                cases.append(rz.ctl_case(s, "reset"))
                continue
            if r < 0.14 and len(live) < 3:
                slot += 1
                cases.append(rz.ctl_case(s, "clone", to=slot))
                live.append(slot)
                continue
            kw = rand_call(rng, big=(step % 3 == 0))
            g += 1
            seed = rng.randint(1, 10 ** 9)
            base = ["pipeline", "no_panic", "outside", "srcsame"]
            for rzid in (-1, s):
                chk = base + (["memo_exact"] if rzid >= 0 else [])
                cases.append(rz.resize_case(kw["pt"], kw["sw"], kw["sh"], kw["dw"], kw["dh"], alg=kw["alg"], flt=kw["flt"], m=kw["m"],
                                            alpha=kw["alpha"], box=kw["box"], Q=kw["Q"], cpu=kw["cpu"], rz=rzid,
                                            src_c={"g": "rand", "seed": seed, "flo": -1.0, "fhi": 2.0}, log=("digest",), chk=chk, g=g,
                                            sent=seed % 9973))
    return cases


def run(res, tier, seed):
    rng = random.Random(seed)
    for cfg, what in (("MC_Resizer.cfg", "pipeline, every single call of the alphabet"),
                      ("MC_Resizer_hist.cfg", "all histories of 3 calls with Reset, reduced alphabet: buffers grow-only, results canonical")):
        r = vlib.run_tlc_mc("MC_Resizer", cfg=cfg, workers=8)
        res.add_mc(r, what)
        if not r["ok"]:
            res.violation(what="MC_Resizer invariant violated (%s)" % cfg, detail=r["error"])
    if tier != "quick":
        r = vlib.run_tlc_mc("MC_Resizer", cfg="MC_Resizer_full.cfg", workers=12, timeout=3600)
        res.add_mc(r, "all histories of 2 calls over the full alphabet")
        if not r["ok"]:
            res.violation(what="MC_Resizer invariant violated (full)", detail=r["error"])
    cases = gen(tier, rng)
    bad, recs = rz.run_resize_trace(res, "c09", cases)
    report(res, "C09", bad)
    res.samples = [rz.describe(c) for c in cases[:14]]
    res.cov["cases"] = len(cases)
    res.cov["histories"] = 120 if tier == "quick" else 1500
    res.assumptions += ["results are compared through two 31-bit digests of the destination"]
