"""C07 -- alpha-aware resizing ignores the colour of fully transparent pixels.

Spec: Resizer!Canonical gives Div(Conv(Mul(src))) exactly when alpha handling is on and the type has alpha (MC_Resizer);
MC_AlphaAlgebra checks the algebra on a tiny domain (colour under alpha = 0 cannot influence the result; resampled alpha 0
=> colour 0; all alpha = max => alpha-on == alpha-off; the alpha lane is a plain convolution). Conformance: metamorphic
pairs recorded from the real resizer and compared by TLC; hook order MulAlpha -> passes -> DivAlpha (and its absence for
types without alpha) validated against the Resizer specification."""
import random
import vlib, rz
from props.c12 import report

ALPHA_PTS = ["U8x2", "U8x4", "U16x2", "U16x4", "F32x2", "F32x4"]


def image(pt, w, h, rng, alpha_mode):
    info = rz.PT[pt]
    nc = info["nc"]
    mx = info["max"]
    if alpha_mode in ("zero_some", "any") and rng.random() < 0.4:
        # runs of transparent black / saturated / opaque / transparent-coloured / mixed pixels (whole vectors alike)
        return rz.runs_pixels(pt, w * h, rng)
    out = []
    for p in range(w * h):
        if info["comp"] == "f32":
            cs = [rng.choice([rng.random(), rng.random() * 4 - 2, 0.0, 1.0]) for _ in range(nc - 1)]
            a = {"zero_some": rng.choice([0.0, 0.0, rng.random(), 1.0]), "opaque": 1.0, "any": rng.random()}[alpha_mode]
            out += [rz.f32bits(x) for x in cs] + [rz.f32bits(a)]
        else:
            cs = [rng.choice([rng.randint(0, mx), 0, mx]) for _ in range(nc - 1)]
            a = {"zero_some": rng.choice([0, 0, rng.randint(0, mx), mx, 1]), "opaque": mx, "any": rng.randint(0, mx)}[alpha_mode]
            out += cs + [a]
    return out


def recolour(pt, data, rng):
    """a copy that differs only in the colour components of pixels whose alpha is zero"""
    info = rz.PT[pt]
    nc = info["nc"]
    out = list(data)
    zero = {0, rz.f32bits(0.0), rz.f32bits(-0.0)} if info["comp"] == "f32" else {0}
    for p in range(len(data) // nc):
        if data[p * nc + nc - 1] in zero:
            for k in range(nc - 1):
                if info["comp"] == "f32":
                    out[p * nc + k] = rz.f32bits(rng.choice([1.0, -3.0, 1e20, rng.random() * 100]))
                else:
                    out[p * nc + k] = rng.choice([info["max"], rng.randint(0, info["max"]), 1])
    return out


def gen(tier, rng):
    cases = []
    g = 0
    geoms = [(7, 5, 3, 2), (4, 4, 9, 7), (12, 3, 5, 3), (9, 9, 4, 4), (5, 6, 5, 3), (3, 2, 8, 8), (16, 8, 3, 2), (10, 7, 11, 6)]
    algs = [("conv", f, 1) for f in rz.BUILTIN] + [("interp", "Bilinear", 1), ("interp", "Lanczos3", 1), ("ss", "Box", 2), ("ss", "CatmullRom", 3)]
    n = 0
    for pt in ALPHA_PTS:
        isf = rz.PT[pt]["comp"] == "f32"
        for (sw, sh, dw, dh) in geoms:
            for (alg, flt, m) in algs:
                n += 1
                if tier == "quick" and n % 3:
                    continue
                cpu = rz.pick(n, 122, rz.CPUS)
                box = None if n % 4 else (1, 1, 2 * sw - 2, 2 * sh - 3)
                Q = 1 if box is None else 2
                kw = dict(alg=alg, flt=flt, m=m, box=box, Q=Q, cpu=cpu)
                # 1. colours under alpha = 0 do not matter; zero alpha out => zero colour out
                a = image(pt, sw, sh, rng, "zero_some")
                b = recolour(pt, a, rng)
                g += 1
                cases.append(rz.resize_case(pt, sw, sh, dw, dh, alpha=True, src_c={"g": "data", "v": a}, log=("dst",),
                                            chk=("pipeline", "ret_ok", "alpha_zero"), g=g, **kw))
                cases.append(rz.resize_case(pt, sw, sh, dw, dh, alpha=True, src_c={"g": "data", "v": b}, log=("dst",),
                                            chk=("pipeline", "ret_ok", "alpha_zero", "memo_exact"), g=g, **kw))
                # 2. fully opaque source: alpha handling makes no difference
                o = image(pt, sw, sh, rng, "opaque")
                g += 1
                cases.append(rz.resize_case(pt, sw, sh, dw, dh, alpha=False, src_c={"g": "data", "v": o}, log=("dst",),
                                            chk=("pipeline", "ret_ok"), g=g, **kw))
                cases.append(rz.resize_case(pt, sw, sh, dw, dh, alpha=True, src_c={"g": "data", "v": o}, log=("dst",),
                                            chk=("pipeline", "ret_ok") + (("memo_ulp",) if isf else ("memo_exact",)), g=g,
                                            echo={"ulps": 4}, **kw))
                # 3. the alpha channel is resampled as a plain channel
                x = image(pt, sw, sh, rng, "any")
                g += 1
                cases.append(rz.resize_case(pt, sw, sh, dw, dh, alpha=False, src_c={"g": "data", "v": x}, log=("dst",),
                                            chk=("pipeline", "ret_ok"), g=g, **kw))
                cases.append(rz.resize_case(pt, sw, sh, dw, dh, alpha=True, src_c={"g": "data", "v": x}, log=("dst",),
                                            chk=("pipeline", "ret_ok", "same_alpha"), g=g, **kw))
    # crops deep inside the source with a strong down-scale: the stretched kernel reaches far beyond the crop box, into
    # source pixels that must have been premultiplied like the rest (opaque source: alpha-on == alpha-off; the alpha plane
    # is a plain convolution; recoloured transparent pixels outside the box never show)
    for pt in ALPHA_PTS:
        isf = rz.PT[pt]["comp"] == "f32"
        # ... and enlargements of a crop deep inside the source (the kernel is not stretched then: radius = support)
        for (sw, sh, dw, dh, box) in ((28, 24, 3, 3, (8, 6, 12, 12)), (40, 9, 4, 3, (14, 3, 12, 3)), (9, 36, 3, 2, (3, 12, 3, 10)),
                                      (12, 16, 9, 11, (3, 6, 6, 4)), (16, 10, 13, 4, (5, 4, 5, 3))):
            for (alg, flt, m) in (("conv", "Lanczos3", 1), ("conv", "Bilinear", 1), ("ss", "CatmullRom", 2)):
                n += 1
                if tier == "quick" and rz.pick(n, 124, [0, 1]):
                    continue
                kw = dict(alg=alg, flt=flt, m=m, box=box, Q=1, cpu=rz.pick(n, 122, rz.CPUS))
                o = image(pt, sw, sh, rng, "opaque")
                g += 1
                cases.append(rz.resize_case(pt, sw, sh, dw, dh, alpha=False, src_c={"g": "data", "v": o}, log=("dst",), chk=("pipeline", "ret_ok"), g=g, **kw))
                cases.append(rz.resize_case(pt, sw, sh, dw, dh, alpha=True, src_c={"g": "data", "v": o}, log=("dst",),
                                            chk=("pipeline", "ret_ok") + (("memo_ulp",) if isf else ("memo_exact",)), g=g, echo={"ulps": 4}, **kw))
                x = image(pt, sw, sh, rng, "any")
                g += 1
                cases.append(rz.resize_case(pt, sw, sh, dw, dh, alpha=False, src_c={"g": "data", "v": x}, log=("dst",), chk=("pipeline", "ret_ok"), g=g, **kw))
                cases.append(rz.resize_case(pt, sw, sh, dw, dh, alpha=True, src_c={"g": "data", "v": x}, log=("dst",), chk=("pipeline", "ret_ok", "same_alpha"), g=g, **kw))
                a = image(pt, sw, sh, rng, "zero_some")
                b = recolour(pt, a, rng)
                g += 1
                cases.append(rz.resize_case(pt, sw, sh, dw, dh, alpha=True, src_c={"g": "data", "v": a}, log=("dst",), chk=("pipeline", "ret_ok", "alpha_zero"), g=g, **kw))
                cases.append(rz.resize_case(pt, sw, sh, dw, dh, alpha=True, src_c={"g": "data", "v": b}, log=("dst",),
                                            chk=("pipeline", "ret_ok", "alpha_zero", "memo_exact"), g=g, **kw))
    if tier != "quick":
        # seeded random geometries / crops / algorithms: recoloured transparent pixels never show
        for i in range(5000):
            kw = rz.random_resize_kw(rng, pts=ALPHA_PTS, algs=[("conv", 1), ("conv", 1), ("interp", 1), ("ss", 1), ("ss", 2), ("ss", 3)], maxdim=24)
            pt, sw, sh = kw["pt"], kw["sw"], kw["sh"]
            bx, Qb = kw["box"] or (0, 0, kw["Q"] * sw, kw["Q"] * sh), kw["Q"]
            if bx[0] % Qb == 0 and bx[1] % Qb == 0 and bx[2] == Qb * kw["dw"] and bx[3] == Qb * kw["dh"]:
                continue        # Geometry!IsCopy: nothing is resampled, C12 demands the bit-exact copy (hidden colours included)
            a = image(pt, sw, sh, rng, "zero_some")
            b = recolour(pt, a, rng)
            g += 1
            common = dict(alg=kw["alg"], flt=kw["flt"], m=kw["m"], box=kw["box"], Q=kw["Q"], cpu=kw["cpu"])
            cases.append(rz.resize_case(pt, sw, sh, kw["dw"], kw["dh"], alpha=True, src_c={"g": "data", "v": a}, log=("dst",),
                                        chk=("pipeline", "ret_ok", "alpha_zero"), g=g, **common))
            cases.append(rz.resize_case(pt, sw, sh, kw["dw"], kw["dh"], alpha=True, src_c={"g": "data", "v": b}, log=("dst",),
                                        chk=("pipeline", "ret_ok", "alpha_zero", "memo_exact"), g=g, **common))
    # types without alpha: the option changes nothing (and no alpha phase appears in the hook trace)
    for pt in ("U8", "U8x3", "U16", "U16x3", "I32", "F32", "F32x3"):
        for (sw, sh, dw, dh) in geoms[:3]:
            g += 1
            for al in (False, True):
                cases.append(rz.resize_case(pt, sw, sh, dw, dh, alg="conv", flt="Lanczos3", alpha=al, cpu=rz.pick(g, 123, rz.CPUS),
                                            src_c={"g": "rand", "seed": g, "flo": 0.0, "fhi": 1.0}, log=("dst",),
                                            chk=("pipeline", "ret_ok") + (("memo_exact",) if al else ()), g=g))
    return cases


def run(res, tier, seed):
    rng = random.Random(seed)
    r = vlib.run_tlc_mc("MC_AlphaAlgebra", workers=8)
    res.add_mc(r, "tiny-domain algebra of Div(Conv(Mul(src))): transparency, zero alpha, opaque identity, alpha lane")
    if not r["ok"]:
        res.violation(what="MC_AlphaAlgebra invariant violated", detail=r["error"])
    r = vlib.run_tlc_mc("MC_Resizer", cfg="MC_Resizer.cfg", workers=8)
    res.add_mc(r, "Resizer pipeline: Canonical term has Mul ... Div exactly when alpha is on and the type has alpha")
    if not r["ok"]:
        res.violation(what="MC_Resizer invariant violated", detail=r["error"])
    cases = gen(tier, rng)
    bad, recs = rz.run_resize_trace(res, "c07", cases)
    report(res, "C07", bad)
    res.samples = [rz.describe(c) for c in (cases[0], cases[1], cases[-1])]
    res.cov["cases"] = len(cases)
