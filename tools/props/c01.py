"""C01 -- convolution resizing equals the ideal separable filter within rounding error.

Three links, each judged by TLC:
 1. weights (TraceCoeffs): the f64 coefficient tables the resizer really uses (read-only hook) have windows inside the
    kernel's support and the source, sum to 1, and every weight equals the documented kernel at the tap's exact rational
    argument, normalised -- Box/Bilinear/CatmullRom/Mitchell on every geometry, Hamming/Gaussian/Lanczos3 on geometries whose
    tap arguments fall on the 1/64 grid of the certified KernelTable;
 2. quantisation (TraceCoeffs): precision and integer coefficients = FixedPoint!Precision / round-half-away of those weights;
 3. pixels (TraceConv): every pass of recorded resizes (intermediate images dumped by hooks) is recomputed from the recorded
    source and those tables; every sample within half a unit (integers) / 1/2 (I32) / a few ulp (floats); SuperSampling's
    intermediate image is the nearest-neighbour image; premultiply / divide per Alpha.tla.
Design level: MC_FixedPoint (the algorithm is within half a unit of the exact clamped sum), MC_Geometry (windows)."""
import json, os, random
import vlib, rz, coeffs
from props.c12 import tags


def content(pt, kind, sw, sh, rng):
    info = rz.PT[pt]
    nc = info["nc"]
    n = sw * sh * nc
    if kind == "runs":
        # runs of 1..12 pixels that are all zero / all maximum / another constant / noise (whole vectors of equal values)
        isf = info["comp"] == "f32"
        lo, hi = (0.0, 1.0) if isf else ((0, info["max"]) if info["comp"] != "i32" else (-2 ** 31 + 1, 2 ** 31 - 1))
        draw = (lambda: rng.uniform(-0.5, 1.5)) if isf else (lambda: rng.randint(lo, hi))
        vals, left, mode, const = [], 0, 0, None
        for _ in range(sw * sh):
            if left == 0:
                left, mode, const = rng.randint(1, 12), rng.choice([0, 1, 2, 3, 3]), [draw() for _ in range(nc)]
            left -= 1
            vals += [lo] * nc if mode == 0 else ([hi] * nc if mode == 1 else (const if mode == 2 else [draw() for _ in range(nc)]))
        return [rz.f32bits(v) for v in vals] if isf else vals
    if info["comp"] == "f32":
        gen = {"rand": lambda: rng.uniform(-0.5, 1.5), "extreme": lambda: rng.choice([0.0, 1.0]), "impulse": lambda: 0.0,
               "checker": lambda: 0.0}[kind]
        vals = [gen() for _ in range(n)]
        if kind == "impulse":
            vals[rng.randrange(n)] = 1.0
        if kind == "checker":
            vals = [float((i // nc % sw + i // nc // sw) % 2) for i in range(n)]
        return [rz.f32bits(v) for v in vals]
    lo, hi = (0, info["max"]) if info["comp"] != "i32" else (-2 ** 31 + 1, 2 ** 31 - 1)
    if kind == "rand":
        return [rng.randint(lo, hi) for _ in range(n)]
    if kind == "extreme":
        return [rng.choice([lo, hi]) for _ in range(n)]
    if kind == "checker":
        return [hi if (i // nc % sw + i // nc // sw) % 2 else lo for i in range(n)]
    vals = [lo if info["comp"] != "i32" else 0] * n
    vals[rng.randrange(n)] = hi
    return vals


def gen(tier, rng):
    cases = []
    geoms = [(7, 5, 3, 2, None, 1), (4, 4, 9, 7, None, 1), (9, 3, 4, 3, None, 1), (3, 8, 3, 3, None, 1), (6, 6, 4, 5, (1, 2, 9, 8), 2),
             (8, 8, 2, 2, None, 1), (5, 4, 11, 4, (2, 0, 16, 16), 4), (10, 10, 3, 3, None, 1), (2, 2, 5, 6, None, 1), (12, 5, 5, 2, (3, 1, 40, 17), 4),
             (1, 1, 3, 3, None, 1), (6, 1, 2, 1, None, 1), (16, 12, 4, 3, None, 1)]
    algs = [("conv", 1), ("interp", 1), ("ss", 1), ("ss", 2), ("ss", 3)]
    kinds = ["rand", "extreme", "checker", "impulse", "runs"]
    n = 0
    for pt in rz.ALL_PT:
        for gi, (sw, sh, dw, dh, box, Q) in enumerate(geoms):
            for flt in rz.BUILTIN:
                for (alg, m) in algs:
                    n += 1
                    if tier == "quick" and n % 11:
                        continue
                    alpha = bool(rz.PT[pt]["alpha"]) and n % 2 == 0
                    cases.append(rz.resize_case(pt, sw, sh, dw, dh, alg=alg, flt=flt, m=m, alpha=alpha, box=box, Q=Q, cpu=rz.pick(n, 101, rz.CPUS),
                                                src_c={"g": "data", "v": content(pt, kinds[n % 5], sw, sh, rng)},
                                                log=("src", "dst", "hooks", "imgs"), chk=("pipeline", "ret_ok")))
    # long windows (16 .. 60 taps: the wide-accumulator branches of the SIMD kernels), row counts of every residue of the
    # 4-row kernels, on every back-end
    for pt in rz.ALL_PT:
        for (sw, sh, dw, dh) in ((40, 3, 2, 3), (3, 40, 3, 2), (70, 5, 3, 5), (48, 6, 2, 2)):
            n += 1
            flt = rz.pick(n, 316, ["Box", "Bilinear", "Lanczos3", "Gaussian", "Hamming"])
            kind = rz.pick(n, 317, ["rand", "extreme", "checker", "runs"])
            data = content(pt, kind, sw, sh, rng)
            for cpu in rz.CPUS:
                if tier == "quick" and cpu != "avx2" and rz.pick(n, 318, [0, 1]):
                    continue
                cases.append(rz.resize_case(pt, sw, sh, dw, dh, alg="conv", flt=flt, m=1, alpha=False, cpu=cpu, src_c={"g": "data", "v": data},
                                            log=("src", "dst", "hooks", "imgs"), chk=("pipeline", "ret_ok")))
    # alpha-aware down-scales of a crop deep inside the source: the kernel reaches premultiplied pixels far outside the box
    for pt in ("U8x2", "U8x4", "U16x2", "U16x4", "F32x2", "F32x4"):
        for (sw, sh, dw, dh, box) in ((22, 18, 2, 2, (7, 5, 8, 8)), (30, 6, 3, 2, (10, 2, 9, 2)), (10, 14, 7, 9, (3, 5, 4, 4))):
            n += 1
            if tier == "quick" and rz.pick(n, 319, [0, 1]):
                continue
            cases.append(rz.resize_case(pt, sw, sh, dw, dh, alg="conv", flt=rz.pick(n, 320, ["Lanczos3", "Bilinear", "Mitchell"]), m=1, alpha=True, box=box, Q=1,
                                        cpu=rz.pick(n, 321, rz.CPUS), src_c={"g": "data", "v": content(pt, "rand", sw, sh, rng)},
                                        log=("src", "dst", "hooks", "imgs"), chk=("pipeline", "ret_ok")))
    # sub-pixel shifts without a size change and every pass-planning combination (origin integer / fractional x extent equal / different)
    Q = 4
    for pt in rz.ALL_PT:
        for (l, w_, dw) in ((Q, Q * 5, 5), (Q + 2, Q * 5, 5), (Q, Q * 6, 5), (Q + 1, Q * 5 + 3, 5)):
            for (t, h_, dh) in ((Q, Q * 6, 6), (Q + 2, Q * 6, 6), (Q, Q * 7, 6), (Q + 3, Q * 6 + 1, 6)):
                n += 1
                if tier == "quick" and rz.pick(n, 311, [0, 1, 1]):
                    continue
                sw, sh = 9, 10
                alg, m = rz.pick(n, 312, algs)
                flt = rz.pick(n, 313, rz.BUILTIN)
                cases.append(rz.resize_case(pt, sw, sh, dw, dh, alg=alg, flt=flt, m=m, alpha=False, box=(l, t, w_, h_), Q=Q, cpu=rz.pick(n, 314, rz.CPUS),
                                            src_c={"g": "data", "v": content(pt, rz.pick(n, 315, kinds), sw, sh, rng)},
                                            log=("src", "dst", "hooks", "imgs"), chk=("pipeline", "ret_ok")))
    return cases


def img(r, w, h):
    return {"w": w, "h": h, "v": r}


def run(res, tier, seed):
    rng = random.Random(seed)
    for (mod, cfg, what) in (("MC_FixedPoint", None, "fixed-point sample within half a unit of the exact clamped sum; unity band; monotone"),
                             ("MC_Geometry", None, "windows inside source and support for all small geometries")):
        r = vlib.run_tlc_mc(mod, workers=8)
        res.add_mc(r, what)
        if not r["ok"]:
            res.violation(what=mod + " invariant violated", detail=r["error"])
    t = vlib.run_tlapm("WindowProof")
    res.add_lemma(t, "Proved", "TLAPS: the support window clamped to the source is non-empty, inside the source and contains the centre pixel, for ALL naturals, every grid, every support >= 1/2")
    if t["result"] != "Proved":
        raise vlib.ToolError("TLAPS proof WindowProof: %s" % t["result"])
    a = vlib.run_apalache("GeomLemmas", "WindowInside")
    res.add_lemma(a, "NoError", "support window clamped to the source is non-empty and contains the centre pixel, all sizes < 2^16")
    if a["result"] != "NoError":
        raise vlib.ToolError("lemma GeomLemmas!WindowInside: %s" % a["result"])
    # ---- link 1 + 2 on the lattice
    lat = coeffs.lattice(tier, rng, purpose="full")
    # ---- link 3: recorded resizes
    cases = gen(tier, rng)
    bad, recs = rz.run_resize_trace(res, "c01", cases, keep=("dst",))
    for (c, r, reason) in bad:
        res.violation(what="C01 pipeline " + reason, reason=reason, case=rz.describe(c))
    # coefficient dumps for the geometry each case really convolved (logged by the hooks)
    req = []
    for c, r in zip(cases, recs):
        hooks = {h["k"]: h for h in r.get("hooks", [])}
        a_ = c["_spec"]["args"]
        if r.get("ret") != "ok" or "conv_plan" not in hooks:
            continue
        pl = hooks["conv_plan"]["v"]
        if "ss_take" in hooks:
            tw, th = hooks["ss_take"]["v"][1], hooks["ss_take"]["v"][2]
            cw, ch, box, Q = tw, th, [0, 0, tw, th], 1
        else:
            cw, ch, box, Q = a_["sw"], a_["sh"], a_["box"], a_["Q"]
        comp = rz.PT[c["_spec"]["pt"]]["comp"]
        norm = {"u8": 16, "u16": 32}.get(comp, 0)
        ad = a_["alg"] != "interp"
        checks = ["windows", "sum1", "ideal"] + (["quant", "unity", "clip"] if norm else [])
        entry = {"case": c, "rec": r, "cw": cw, "ch": ch, "box": box, "Q": Q}
        if pl[0] == 1:
            entry["h"] = coeffs.ccase(cw, box[0], box[2], Q, a_["dw"], c["_spec"]["flt"], ad, norm, checks)
        if pl[4] == 1:
            entry["v"] = coeffs.ccase(ch, box[1], box[3], Q, a_["dh"], c["_spec"]["flt"], ad, norm, checks)
        req.append(entry)
    ccases = lat + [e[k] for e in req for k in ("h", "v") if k in e]
    for i, c in enumerate(ccases):
        c["id"] = i
    binary = vlib.build_harness("release")
    wd = vlib.workdir("c01_coeffs")
    crecs, tpath = vlib.run_harness(binary, ccases, wd)
    tr = vlib.run_tlc_trace("TraceCoeffs", tpath, xmx="16g")
    res.add_trace(tr, len(ccases), "TraceCoeffs(c01)")
    win = tot = 0
    for (k, rest) in tr["lines"]:
        if k == "CLAIMED":
            parts = [int(v) for v in rest.split(",")]
            win += parts[1]
            tot += parts[2]
    res.cov["ideal_windows_with_value_claim"] = win
    res.cov["ideal_windows_total"] = tot
    for (cid, reason) in tr["bad"]:
        c = ccases[cid]
        res.violation(what="C01 coefficients " + reason, reason=reason, filter=c["filter"], case=coeffs.describe(c))
    # ---- the pixel trace: one self-contained record per resize
    ppath = os.path.join(wd, "pixels.trace.ndjson")
    n = 0
    with open(ppath, "w") as f:
        for e in req:
            c, r = e["case"], e["rec"]
            a_ = c["_spec"]["args"]
            info = rz.PT[c["_spec"]["pt"]]
            hooks = r.get("hooks", [])
            pl = [h for h in hooks if h["k"] == "conv_plan"][0]["v"]
            passes = [h["v"] for h in hooks if h["k"] == "pass"]
            rec = {"id": c["id"], "ret": r["ret"],
                   "echo": {"comp": info["comp"], "nc": info["nc"], "u8": info["u8"], "sw": a_["sw"], "sh": a_["sh"], "box": a_["box"], "Q": a_["Q"],
                            "pt": c["_spec"]["pt"]},
                   "src": img(r["src"], a_["sw"], a_["sh"]), "dst": img(r["dst"], a_["dw"], a_["dh"]),
                   "plan": {"h": pl[0], "hf": pl[2], "hl": pl[3], "v": pl[4], "vf": pl[6], "vl": pl[7],
                            "off": passes[0][1] if len(passes) == 1 else 0}}
            for im in r.get("imgs", []):
                key = {"ss_img": "ss", "premul_img": "premul", "tmp_img": "tmp", "conv_img": "conv"}[im["k"]]
                rec[key] = img(im["v"], im["w"], im["h"])
            for k in ("h", "v"):
                if k in e:
                    cr = crecs[e[k]["id"]]
                    co = {"bounds": cr.get("bounds", []), "w": cr.get("w", [])}
                    if "ks" in cr:
                        co["ks"] = cr["ks"]
                        co["p"] = cr["p"]
                    rec[k + "co"] = co
            f.write(json.dumps(rec, separators=(",", ":")) + "\n")
            n += 1
    tr2 = vlib.run_tlc_trace("TraceConv", ppath, xmx="16g")
    res.add_trace(tr2, n, "TraceConv(c01)")
    by_id = {e["case"]["id"]: e for e in req}
    for (cid, reason) in tr2["bad"]:
        e = by_id[cid]
        d = rz.describe(e["case"])
        res.violation(what="C01 pixels " + reason, reason=reason, pt=d.get("pt"), alg=d.get("alg", d.get("op")), filter=d.get("filter"), cpu=d.get("cpu"), alpha=d.get("alpha"), case=d)
    res.samples = [coeffs.describe(lat[0]), rz.describe(cases[0]), rz.describe(cases[-1])]
    res.cov["coefficient_tables"] = len(ccases)
    res.cov["resizes_recomputed"] = n
    res.assumptions += ["Hamming/Gaussian/Lanczos3 values are compared with a certified table only where all tap arguments are multiples of 1/64; elsewhere only windows, sum and quantisation are checked",
                        "integer kernels are judged against the fixed-point sum with the dumped coefficients (half a unit), which TraceCoeffs ties to the f64 weights and the ideal kernel",
                        "f32/f64 roundings are judged by exact dyadic intervals, not bit-exactly"]
