"""C05 -- a resize writes every destination pixel and nothing else.

Spec: Resizer!Written (MC_Resizer; the pinned no-pass behaviour is refuted as a witness) and the observation checks of
ResizeChecks. Conformance: every case is executed twice with two different sentinel fills of the whole backing store
(destination rectangle and surroundings / spare capacity); TLC checks: outside bytes unchanged, inside bytes equal in both
runs (so they were assigned), source unchanged, untouched destination on errors and zero sizes, and that the hook sequence
is a behaviour of the Resizer specification."""
import random
import vlib, rz

DYN_PAIRS = [(None, None), ({"k": "image_ref"}, {"k": "slice", "extra": 7}), ({"k": "slice"}, {"k": "image", "extra": 3}),
             ({"k": "crop", "pad": [1, 1, 2, 0]}, {"k": "crop_mut", "pad": [2, 1, 3, 2]}),
             ({"k": "crop_ref", "pad": [0, 2, 1, 1]}, {"k": "slice", "extra": 1}),
             ({"k": "image_ref"}, {"k": "crop_mut", "pad": [0, 3, 0, 1]}),
             ({"k": "nested", "pad": [2, 2, 3, 1]}, {"k": "nested_mut", "pad": [2, 3, 2, 2]}),
             # views far to the right in parents with few spare rows (left > parent height - view height), and the transpose
             ({"k": "crop", "pad": [6, 0, 1, 1]}, {"k": "crop_mut", "pad": [7, 1, 0, 0]}),
             ({"k": "crop_ref", "pad": [0, 5, 1, 0]}, {"k": "crop_mut", "pad": [1, 6, 1, 0]})]
TYPED_PAIRS = [({"k": "typed_ref"}, {"k": "typed", "extra": 5}), ({"k": "typed"}, {"k": "typed"}),
               ({"k": "typed_ref"}, {"k": "typed_crop_mut", "pad": [1, 2, 2, 1]}),
               ({"k": "typed_crop", "pad": [1, 0, 1, 2]}, {"k": "typed", "extra": 2}),
               ({"k": "typed_crop", "pad": [2, 1, 0, 1]}, {"k": "typed_crop_mut", "pad": [3, 1, 1, 2]}),
               ({"k": "typed_nested", "pad": [2, 2, 2, 2]}, {"k": "typed_nested_mut", "pad": [2, 2, 3, 3]})]


def lay_with_guard(lay, guard):
    if lay is None:
        lay = {"k": "image"}
    lay = dict(lay)
    if lay["k"] != "image":
        lay["guard"] = guard
    return lay


def gen(tier, rng):
    cases = []
    g = 0
    geoms = [(8, 6, 4, 3, None, 1), (9, 7, 4, 5, None, 1), (5, 5, 11, 9, None, 1), (12, 10, 3, 3, (2, 3, 17, 13), 2),
             (7, 9, 7, 4, None, 1), (6, 6, 6, 6, (1, 1, 4, 4), 1), (10, 10, 5, 5, None, 1), (16, 4, 2, 2, None, 1),
             (3, 3, 1, 1, None, 1), (1, 1, 4, 3, None, 1), (20, 20, 3, 3, None, 1),
             # the copy path (same size): portrait, landscape, an integer crop taller than wide
             (3, 7, 3, 7, None, 1), (7, 2, 7, 2, None, 1), (6, 11, 2, 5, (1, 3, 2, 5), 1)]
    algs = [("nearest", "Box", 1), ("conv", "Lanczos3", 1), ("conv", "Box", 1), ("conv", "Bilinear", 1), ("interp", "CatmullRom", 1),
            ("ss", "Lanczos3", 1), ("ss", "Bilinear", 2), ("ss", "Hamming", 3), ("ss", "Gaussian", 4)]
    pts = rz.ALL_PT
    n = 0
    for pt in pts:
        for (sw, sh, dw, dh, box, Q) in geoms:
            for (alg, flt, m) in algs:
                n += 1
                if tier == "quick" and n % 4 != 0:
                    continue
                if box is not None and dw == 6 and dh == 6:
                    dw, dh = 4, 4
                typed = rz.pick(n, 205, [False, True])
                pairs = TYPED_PAIRS if typed else DYN_PAIRS
                slay, dlay = pairs[(n // 8) % len(pairs)]
                cpu = rz.pick(n, 119, rz.CPUS)
                threads = rz.pick(n, 206, [1, 1, 1, 4])
                alpha = rz.pick(n, 207, [True, False])
                g += 1
                for rep, sent in enumerate((0x1111 + n, 0x7777 + 3 * n)):
                    chk = ["pipeline", "ret_ok", "outside", "srcsame"] + (["memo_exact"] if rep else [])
                    cases.append(rz.resize_case(pt, sw, sh, dw, dh, alg=alg, flt=flt, m=m, alpha=alpha, box=box, Q=Q, cpu=cpu,
                                                src_c={"g": "rand", "seed": n}, src_lay=lay_with_guard(slay, 1) if slay else None,
                                                dst_lay=lay_with_guard(dlay, 1) if dlay else {"k": "image"},
                                                api="typed" if typed else "dyn", threads=threads, log=("dst",), chk=chk, g=g, sent=sent))
    # single-pass plans (horizontal-only / vertical-only) from a crop strictly inside the source into destinations with surroundings:
    # the kernels' "remaining rows" / tail loops are bounded only by the row iterators of the views
    for pt in pts:
        for (dw, dh) in ((4, 5), (11, 6), (3, 7), (9, 9), (5, 1), (17, 3)):
            for plan in ("h", "v", "both"):
                for (alg, flt, m) in (("conv", "Lanczos3", 1), ("interp", "Bilinear", 1), ("ss", "Box", 1)):
                    n += 1
                    if tier == "quick" and n % 3:
                        continue
                    if plan == "h":
                        box = (2, 3, 7 if dw != 7 else 8, dh)
                    elif plan == "v":
                        box = (2, 3, dw, 8 if dh != 8 else 7)
                    else:
                        box = (1, 2, dw + 3, dh + 2)
                    sw, sh = box[0] + box[2] + 3, box[1] + box[3] + 4
                    typed = rz.pick(n, 201, [False, True])
                    if typed:
                        slay, dlay = rz.pick(n, 202, [TYPED_PAIRS[2], TYPED_PAIRS[4], TYPED_PAIRS[5]])
                    else:
                        slay, dlay = rz.pick(n, 203, [DYN_PAIRS[3], DYN_PAIRS[5], DYN_PAIRS[6]])
                    g += 1
                    for rep, sent in enumerate((0x3131 + n, 0x9797 + 5 * n)):
                        chk = ["pipeline", "ret_ok", "outside", "srcsame"] + (["memo_exact"] if rep else [])
                        cases.append(rz.resize_case(pt, sw, sh, dw, dh, alg=alg, flt=flt, m=m, alpha=rz.pick(n, 204, [True, False, False, False]), box=box, Q=1, cpu=rz.pick(n, 120, rz.CPUS),
                                                    src_c={"g": "rand", "seed": n}, src_lay=lay_with_guard(slay, 1), dst_lay=lay_with_guard(dlay, 1),
                                                    api="typed" if typed else "dyn", log=("dst",), chk=chk, g=g, sent=sent))
    # images large enough for the rayon layer to cut both passes into bands, written into views whose left differs from top
    for pt in ("U8", "U8x4", "U16x3", "F32", "U16x2", "I32"):
        for (sw, sh, dw, dh, box) in ((60, 50, 40, 30, None), (50, 64, 50, 40, None), (64, 40, 44, 40, (3, 0, 50, 40))):
            n += 1
            g += 1
            typed = rz.pick(n, 208, [False, True])
            dlay = {"k": "typed_crop_mut" if typed else "crop_mut", "pad": [3, 1, 2, 2]}
            slay = {"k": "typed_ref"} if typed else {"k": "image_ref"}
            for rep, sent in enumerate((0x4141 + n, 0x8383 + 5 * n)):
                chk = ["pipeline", "ret_ok", "outside", "srcsame"] + (["memo_exact"] if rep else [])
                cases.append(rz.resize_case(pt, sw, sh, dw, dh, alg="conv", flt=rz.pick(n, 209, ["Bilinear", "Lanczos3"]), alpha=False, box=box, Q=1,
                                            cpu=rz.pick(n, 210, rz.CPUS), src_c={"g": "rand", "seed": n}, src_lay=lay_with_guard(slay, 1),
                                            dst_lay=lay_with_guard(dlay, 1), api="typed" if typed else "dyn", threads=4, log=("dst",), chk=chk, g=g, sent=sent))
    # fit_into_destination where only one dimension is cropped and the other already has the destination's extent: the
    # computed box is integral up to the last bit of an f64 quotient (w / (w / dh) may be a hair below or above dh), i.e. right
    # at the boundary between the copy path and a resampling pass -- every destination pixel must be assigned either way
    fits = []
    for w in range(1, 25):
        for sh in range(2, 41):
            for dh in range(1, sh):
                if (sh - dh) % 2:
                    continue
                inexact = (w / (w / dh)) != dh or ((w / dh) * dh) != w
                fits.append((w, sh, w, dh, inexact))
                fits.append((sh, w, dh, w, inexact))
    picked = [f for f in fits if f[4]] + [f for k, f in enumerate(fits) if not f[4] and k % 40 == 0]
    if tier == "quick":
        picked = [f for k, f in enumerate(picked) if rz.pick(k, 211, [1, 0, 0]) or k % 7 == 0]
    for k, (sw, sh, dw, dh, _) in enumerate(picked):
        n += 1
        g += 1
        pt = rz.pick(n, 212, rz.ALL_PT)
        alg, flt, m = rz.pick(n, 213, algs)
        dlay = rz.pick(n, 214, [{"k": "image"}, {"k": "crop_mut", "pad": [2, 1, 1, 2]}, {"k": "slice", "extra": 3}])
        for rep, sent in enumerate((0x1717 + n, 0x9191 + 3 * n)):
            c = rz.resize_case(pt, sw, sh, dw, dh, alg=alg, flt=flt, m=m, alpha=False, cpu=rz.pick(n, 215, rz.CPUS), src_c={"g": "rand", "seed": n},
                               dst_lay=lay_with_guard(dlay, 1) if dlay["k"] != "image" else {"k": "image"}, log=("dst",),
                               chk=["ret_ok", "outside", "srcsame"] + (["memo_exact"] if rep else []), g=g, sent=sent)
            c["opt"].pop("crop", None)
            c["opt"]["fit"] = None if n % 3 else [{"n": 1, "q": 2}, {"n": rz.pick(n, 216, [0, 1, 2]), "q": 2}]
            cases.append(c)
    # crop boxes narrower than any rational grid (one ulp wide / high, flush against the right / bottom edge; 1e-9; denormal):
    # a successful call assigns every destination pixel there too
    from props.c03 import f64bits, nextbelow
    for pt in ("U8", "U8x4", "U16x3", "F32"):
        for (sw, sh) in ((1, 1), (4, 3), (9, 2)):
            W, H = float(sw), float(sh)
            full_w, full_h = {"n": sw, "q": 1}, {"n": sh, "q": 1}
            for crop in ([f64bits(nextbelow(W)), 0, f64bits(W - nextbelow(W)), full_h], [0, f64bits(nextbelow(H)), full_w, f64bits(H - nextbelow(H))],
                         [f64bits(nextbelow(W)), f64bits(nextbelow(H)), f64bits(W - nextbelow(W)), f64bits(H - nextbelow(H))],
                         [0, f64bits(H - 1e-9), full_w, f64bits(1e-9)], [f64bits(1e-300), f64bits(1e-300), f64bits(1e-300), f64bits(1e-300)]):
                for (alg, flt, m) in (("nearest", "Box", 1), ("conv", "Bilinear", 1), ("ss", "Box", 2)):
                    n += 1
                    if tier == "quick" and rz.pick(n, 217, [0, 1]):
                        continue
                    g += 1
                    dw, dh = rz.pick(n, 218, [(1, 1), (3, 2), (2, 5)])
                    for rep, sent in enumerate((0x2323 + n, 0x6565 + 3 * n)):
                        c = rz.resize_case(pt, sw, sh, dw, dh, alg=alg, flt=flt, m=m, alpha=False, cpu=rz.pick(n, 219, rz.CPUS), src_c={"g": "rand", "seed": n},
                                           dst_lay={"k": "crop_mut", "pad": [1, 1, 1, 1], "guard": 1}, log=("dst",),
                                           chk=["ret_ok", "outside", "srcsame"] + (["memo_exact"] if rep else []), g=g, sent=sent)
                        c["opt"]["crop"] = crop
                        cases.append(c)
    # thorough: seeded random calls through random container pairs
    if tier != "quick":
        for i in range(30000):
            kw = rz.random_resize_kw(rng)
            typed = rng.random() < 0.5
            slay, dlay = rng.choice(TYPED_PAIRS if typed else DYN_PAIRS)
            g += 1
            seed = rng.randint(1, 10 ** 9)
            threads = rng.choice([1, 1, 1, 4])
            for rep, sent in enumerate((seed % 9973, seed % 7919 + 5)):
                chk = ["pipeline", "ret_ok", "outside", "srcsame"] + (["memo_exact"] if rep else [])
                cases.append(rz.resize_case(kw["pt"], kw["sw"], kw["sh"], kw["dw"], kw["dh"], alg=kw["alg"], flt=kw["flt"], m=kw["m"], alpha=kw["alpha"],
                                            box=kw["box"], Q=kw["Q"], cpu=kw["cpu"], src_c={"g": "rand", "seed": seed, "flo": 0.0, "fhi": 1.0},
                                            src_lay=lay_with_guard(slay, 1) if slay else None, dst_lay=lay_with_guard(dlay, 1) if dlay else {"k": "image"},
                                            api="typed" if typed else "dyn", threads=threads, log=("dst",), chk=chk, g=g, sent=sent))
    # errors and zero sizes leave the destination alone
    for pt in ("U8", "U8x4", "U16x3", "F32x2"):
        for (alg, flt, m) in algs[:7]:
            for kind in ("badcrop", "zerocrop", "zerodst"):
                g += 1
                sw, sh = 6, 5
                if kind == "badcrop":
                    box, dw, dh = (2, 2, 5, 3), 3, 3
                    chk = ("pipeline", "ret_err", "untouched", "outside", "srcsame")
                elif kind == "zerocrop":
                    box, dw, dh = (1, 1, 0, 3), 3, 3
                    chk = ("pipeline", "ret_ok", "untouched", "outside", "srcsame")
                else:
                    box, dw, dh = (1, 1, 3, 3), 0, 4
                    chk = ("pipeline", "ret_ok", "untouched", "outside", "srcsame")
                dlay = {"k": "crop_mut", "pad": [1, 1, 1, 1]} if kind != "zerodst" else {"k": "slice", "extra": 4}
                cases.append(rz.resize_case(pt, sw, sh, dw, dh, alg=alg, flt=flt, m=m, alpha=True, box=box, Q=1, cpu=rz.pick(g, 121, rz.CPUS),
                                            src_c={"g": "rand", "seed": g}, dst_lay=dlay, log=("dst", "dst0"), chk=chk, g=g))
    # alpha operations, colour mapping, component conversion
    others = []
    for pt in ("U8x2", "U8x4", "U16x2", "U16x4", "F32x2", "F32x4"):
        for op in ("mul", "div", "mul_inplace", "div_inplace"):
            others.append((op, pt, pt, None))
    for (a, b) in (("U8", "U8"), ("U8", "U16"), ("U16", "U8"), ("U16x3", "U16x3"), ("U8x2", "U16x2"), ("U8x4", "U8x4"), ("U16x4", "U8x4"), ("U8x3", "U16x3")):
        for mp in ("srgb", "gamma"):
            for d in ("f", "b"):
                others.append(("map", a, b, (mp, d)))
                if a == b:
                    others.append(("map_inplace", a, b, (mp, d)))
    for (a, b) in (("U8", "U16"), ("U8", "I32"), ("U8", "F32"), ("U16", "U8"), ("U16x3", "F32x3"), ("I32", "U8"), ("F32", "U16"),
                   ("F32x4", "U8x4"), ("U8x4", "U16x4"), ("F32x2", "U16x2"), ("I32", "F32"), ("F32", "I32")):
        others.append(("convert", a, b, None))
    k = 0
    for (op, spt, dpt, mp) in others:
        # every residue of the row length modulo the vector widths (remainder / tail stores)
        for (w, h) in ((5, 3), (17, 2), (2, 3), (3, 2), (6, 1), (7, 4), (31, 2)) if tier == "quick" else \
                ((1, 1), (2, 2), (3, 1), (4, 3), (5, 3), (6, 2), (7, 4), (8, 8), (9, 1), (10, 2), (11, 3), (13, 2), (14, 1), (15, 2), (17, 2), (23, 2), (31, 2), (33, 3)):
            for cpu in rz.CPUS if op in ("mul", "div", "mul_inplace", "div_inplace") else ("none",):
                k += 1
                typed = op in ("mul", "div", "mul_inplace", "div_inplace") and k % 2 == 0
                if op.endswith("_inplace"):
                    slay = None
                    dlay = [{"k": "slice", "extra": 5}, {"k": "crop_mut", "pad": [1, 2, 2, 1]}, {"k": "image"}][k % 3] if not typed else \
                           [{"k": "typed", "extra": 4}, {"k": "typed_crop_mut", "pad": [2, 1, 1, 2]}][k % 2]
                else:
                    slay, dlay = (TYPED_PAIRS if typed else DYN_PAIRS[:6])[k % (6 if typed else 6)]
                g += 1
                content = {"g": "rand", "seed": k, "flo": 0.0, "fhi": 1.0}
                if op in ("mul", "div", "mul_inplace", "div_inplace") and k % 2:
                    # runs of transparent black / saturated / opaque / transparent pixels (a shortcut for an all-zero or
                    # all-opaque vector must still assign the destination)
                    content = {"g": "data", "v": rz.runs_pixels(spt, w * h, random.Random(k))}
                for rep, sent in enumerate((0x2222 + k, 0x5555 + 7 * k)):
                    chk = ["ret_ok", "outside", "srcsame"] + (["memo_exact"] if rep else [])
                    cases.append(rz.img_case(op, dpt, w, h, src_pt=spt, src_c=content, dst_c=content if op.endswith("_inplace") else None,
                                             src_lay=lay_with_guard(slay, 1) if slay else None,
                                             dst_lay=lay_with_guard(dlay, 1) if dlay else {"k": "image"},
                                             api="typed" if typed else "dyn", cpu=cpu, threads=4 if k % 4 == 0 else 1, log=("dst",), chk=chk, g=g,
                                             sent=sent, mapper=mp[0] if mp else None, direction=mp[1] if mp else None))
    # two-image alpha operations over long runs of transparent black / saturated / opaque pixels (whole aligned vectors all
    # zero or all opaque): the destination must be assigned there too
    for pt in ("U8x2", "U8x4", "U16x2", "U16x4", "F32x2", "F32x4"):
        for op in ("mul", "div"):
            for w in (16, 24, 33):
                for cpu in rz.CPUS:
                    k += 1
                    g += 1
                    content = {"g": "data", "v": rz.runs_pixels(pt, w * 6, random.Random(k), maxrun=30)}
                    typed = k % 2 == 0
                    slay, dlay = (TYPED_PAIRS if typed else DYN_PAIRS[:6])[k % 6]
                    for rep, sent in enumerate((0x2A2A + k, 0x5D5D + 7 * k)):
                        chk = ["ret_ok", "outside", "srcsame"] + (["memo_exact"] if rep else [])
                        cases.append(rz.img_case(op, pt, w, 6, src_pt=pt, src_c=content, src_lay=lay_with_guard(slay, 1) if slay else None,
                                                 dst_lay=lay_with_guard(dlay, 1) if dlay else {"k": "image"}, api="typed" if typed else "dyn", cpu=cpu,
                                                 log=("dst",), chk=chk, g=g, sent=sent))
    # mismatched pixel types / sizes: documented error, destination untouched
    for (op, spt, dpt, sw, sh, dw, dh) in (("resize", "U8", "U8x4", 4, 4, 2, 2), ("mul", "U8x4", "U8x2", 3, 3, 3, 3), ("div", "U16x2", "U16x2", 3, 3, 3, 2),
                                           ("map", "U8", "U8x3", 3, 3, 3, 3), ("map", "U8", "U8", 3, 3, 2, 3), ("convert", "U8", "U8x3", 3, 3, 3, 3),
                                           ("convert", "U8", "U16", 3, 3, 4, 3), ("map", "F32", "F32", 3, 3, 3, 3), ("convert", "U8x2", "I32", 2, 2, 2, 2)):
        g += 1
        c = rz.img_case(op, dpt, dw, dh, src_pt=spt, sw=sw, sh=sh, src_c={"g": "rand", "seed": g, "flo": 0.0, "fhi": 1.0},
                        dst_lay={"k": "crop_mut", "pad": [1, 1, 1, 1]}, log=("dst", "dst0"),
                        chk=("ret_err", "untouched", "outside", "srcsame"), g=g, mapper="srgb" if op == "map" else None, direction="f")
        if op == "resize":
            c["opt"] = {"alg": "conv", "filter": "Bilinear"}
        cases.append(c)
    return cases


def api_cases(tier, rng):
    """every entry point x every pair of pixel types x equal / different sizes: the answer must be in Api!Answers and a
    rejected call must leave the destination alone"""
    cases = []
    for op in ("resize", "mul", "div", "map", "convert"):
        for s in rz.ALL_PT:
            for d in rz.ALL_PT:
                for same in (1, 0):
                    if tier == "quick" and op in ("mul", "div") and s != d and rz.pick(len(cases), 601, [0, 1, 1]):
                        continue
                    sw, sh = (3, 2)
                    dw, dh = (3, 2) if same else (2, 3)
                    if op == "resize" and not same:
                        dw, dh = 5, 4
                    c = rz.img_case(op, d, dw, dh, src_pt=s, sw=sw, sh=sh, src_c={"g": "rand", "seed": len(cases), "flo": 0.0, "fhi": 1.0},
                                    dst_lay={"k": "crop_mut", "pad": [1, 1, 1, 1]}, log=("dst", "dst0"), chk=(), cpu=rz.pick(len(cases), 602, rz.CPUS),
                                    mapper="srgb" if op == "map" else None, direction="f")
                    if op == "resize":
                        c["opt"] = {"alg": "conv", "filter": "Bilinear"}
                    c["echo"] = {"op": op, "src": s, "dst": d, "same": same}
                    cases.append(c)
    for op in ("mul_inplace", "div_inplace", "map_inplace"):
        for d in rz.ALL_PT:
            c = rz.img_case(op, d, 3, 2, dst_c={"g": "rand", "seed": len(cases), "flo": 0.0, "fhi": 1.0}, dst_lay={"k": "crop_mut", "pad": [1, 1, 1, 1]},
                            log=("dst", "dst0"), chk=(), mapper="gamma" if op == "map_inplace" else None, direction="b")
            c["echo"] = {"op": op, "src": d, "dst": d, "same": 1}
            cases.append(c)
    # container life cycle (Image::new zeroed, buffer length, copy independent, into_vec, typed access only with the own type)
    for pt in rz.ALL_PT:
        for (w, h) in ((0, 0), (0, 4), (1, 1), (3, 2), (7, 5), (16, 1)):
            cases.append({"op": "container", "pt": pt, "w": w, "h": h, "seed": len(cases), "_spec": {},
                          "echo": {"op": "container", "pt": pt, "w": w, "h": h}})
    # Filter::new accepts exactly the finite positive supports
    for (cls, val) in (("pos", {"n": 3, "q": 2}), ("pos", {"n": 1, "q": 1000}), ("tiny", "denorm"), ("huge", "max"), ("zero", 0), ("zero", "-0"),
                       ("neg", {"n": -1, "q": 1}), ("neg", {"n": -1, "q": 1024}), ("nan", "nan"), ("inf", "inf"), ("neginf", "-inf")):
        cases.append({"op": "filter_new", "support": val, "_spec": {}, "echo": {"op": "filter_new", "class": cls}})
    return cases


def report(res, prop, bad):
    for (c, r, reason) in bad:
        d = rz.describe(c)
        res.violation(what="%s %s" % (prop, reason), reason=reason, ret=r.get("ret"), op=c["op"], pt=d.get("pt"), alg=d.get("alg"),
                      dst_kind=(d.get("dst_lay") or {}).get("k", "image"), dst_extra=(d.get("dst_lay") or {}).get("extra", 0),
                      src_kind=(d.get("src_lay") or {}).get("k", "image"), cpu=d.get("cpu"), threads=d.get("threads"), case=d,
                      hooks=[h["k"] for h in r.get("hooks", [])][:30])


def run(res, tier, seed):
    rng = random.Random(seed)
    r = vlib.run_tlc_mc("MC_Resizer", cfg="MC_Resizer.cfg", workers=8)
    res.add_mc(r, "Resizer pipeline: Written / NoStaleRead / BuffersHome / Canonical for every call of the alphabet")
    if not r["ok"]:
        res.violation(what="MC_Resizer invariant violated", detail=r["error"])
    r = vlib.run_tlc_mc("MC_Resizer", cfg="MC_Resizer_pinned.cfg", workers=4)
    res.add_mc(r, "witness: a no-pass plan that does nothing violates Written (expected counter-example)")
    if r["ok"]:
        raise vlib.ToolError("MC_Resizer_pinned: expected counter-example not found")
    cases = gen(tier, rng)
    bad, recs = rz.run_resize_trace(res, "c05", cases)
    report(res, "C05", bad)
    # entry-point decision tables (Api.tla) over all pairs of pixel types
    acases = api_cases(tier, rng)
    for i, c in enumerate(acases):
        c["id"] = i
    binary = vlib.build_harness("release")
    wd = vlib.workdir("c05_api")
    arecs, tpath = vlib.run_harness(binary, [rz.strip(c) for c in acases], wd)
    import json
    with open(tpath, "w") as f:
        for c, r in zip(acases, arecs):
            r = dict(r)
            r["echo"] = c["echo"]
            f.write(json.dumps(r, separators=(",", ":")) + "\n")
    tr = vlib.run_tlc_trace("TraceApi", tpath)
    res.add_trace(tr, len(acases), "TraceApi")
    for (cid, reason) in tr["bad"]:
        c = acases[cid]
        res.violation(what="C05 api " + reason, reason=reason, op=c["op"], src_pt=c["echo"].get("src", c["echo"].get("pt")), dst_pt=c["echo"].get("dst"), same_size=c["echo"].get("same"), echo=c["echo"],
                      ret=arecs[cid].get("ret"))
    res.cov["api_decision_cases"] = len(acases)
    res.samples = [rz.describe(c) for c in (cases[0], cases[len(cases) // 2], cases[-1])]
    res.cov["cases"] = len(cases)
    res.assumptions += ["outside bytes are compared through two 31-bit digests of the complete surroundings / spare capacity",
                        "inside bytes: equality of the two runs with different sentinels shows assignment unless the result coincides with both sentinels"]
