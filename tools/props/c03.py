"""C03 -- no input reachable through the safe API causes UB, a crash or a panic.

Spec: the index arithmetic the unsafe code relies on -- Geometry!WindowOK / NearestSet inside the source (MC_Geometry; GeomLemmas
for all sizes < 2^16, refuted without the crop-inside precondition), Resizer!TempFits (temporary images inside their buffers:
part of Resizer!Ok for every `temp` event), FixedPoint clip-table range (MC_FixedPoint, FixedLemmas), Views exposure inside the
parent (MC_Views) -- and the Resizer state machine: every call ends in Ok or a documented error.
Conformance: (A) the coefficient windows of the real resizer for a lattice + seeded geometries (TraceCoeffs, windows only, no pixel
data); (B) boundary inputs executed with source and destination flush against PROT_NONE guard pages, on the optimised build and on
the debug-assertion build (slice / pointer precondition checks, overflow checks): sizes 0 and 1, crops flush / sub-pixel / denormal /
one ulp inside the edge / negative / NaN / infinite, oversized and exact buffers, strided views, every algorithm, reused resizers
(random histories and scratch buffers that grow a little with every call),
custom kernels; a panic, abort or signal is data that TLC rejects; (C) custom kernels with large weights on the portable
8-bit path with adversarial contents: the range of indices really used for the clip table (hook) must stay inside the table."""
import random, struct, json, os
import vlib, rz, coeffs
from props.c12 import report


def f64bits(x):
    return "bits:%016x" % struct.unpack("<Q", struct.pack("<d", x))[0]


def nextbelow(x):
    b = struct.unpack("<Q", struct.pack("<d", x))[0]
    return struct.unpack("<d", struct.pack("<Q", b - 1))[0]


def raw_crop_case(pt, sw, sh, dw, dh, crop, alg, flt, cpu, n, chk, m=2, src_lay=None, dst_lay=None, alpha=True):
    """crop given as harness f64 encodings (tags / bits) -- not representable on the rational grid, so no pipeline check"""
    c = rz.resize_case(pt, sw, sh, dw, dh, alg=alg, flt=flt, m=m, alpha=alpha, cpu=cpu, src_c={"g": "rand", "seed": n, "flo": 0.0, "fhi": 1.0},
                       src_lay=src_lay or {"k": "image_ref", "guard": 1}, dst_lay=dst_lay or {"k": "slice", "guard": 1}, log=("digest",), chk=chk)
    c["opt"]["crop"] = crop
    return c


def gen_boundary(tier, rng):
    cases = []
    algs = [("nearest", "Box", 1), ("conv", "Box", 1), ("conv", "Bilinear", 1), ("conv", "Lanczos3", 1), ("interp", "CatmullRom", 1),
            ("ss", "Hamming", 1), ("ss", "Gaussian", 2), ("ss", "Mitchell", 4)]
    n = 0
    srcs = [{"k": "image_ref", "guard": 1}, {"k": "image_ref", "guard": 2}, {"k": "crop_ref", "pad": [0, 1, 0, 0], "guard": 1},
            {"k": "crop_ref", "pad": [2, 0, 1, 1], "guard": 1}, {"k": "typed_ref", "guard": 1}, {"k": "typed_crop", "pad": [1, 1, 0, 0], "guard": 1},
            {"k": "slice", "extra": 3, "guard": 1}]
    dsts = {"dyn": [{"k": "slice", "guard": 1}, {"k": "slice", "guard": 2}, {"k": "crop_mut", "pad": [1, 0, 0, 1], "guard": 1}, {"k": "slice", "extra": 2, "guard": 1}],
            "typed": [{"k": "typed", "guard": 1}, {"k": "typed_crop_mut", "pad": [0, 1, 1, 0], "guard": 1}, {"k": "typed", "extra": 1, "guard": 1}]}
    sizes = [(0, 0), (0, 3), (1, 1), (1, 7), (2, 2), (3, 1), (5, 4), (8, 8), (17, 3), (33, 2), (64, 5)]
    if tier != "quick":
        sizes += [(4096, 1), (1, 4096), (1000, 3), (3, 1000), (129, 65)]
    # 1. degenerate and tiny sizes, every algorithm / type / back-end / container
    for pt in rz.ALL_PT:
        for (sw, sh) in sizes:
            for (dw, dh) in ((0, 0), (1, 1), (2, 3), (sw, sh), (7, 1), (31, 2)):
                for (alg, flt, m) in algs:
                    n += 1
                    if rz.pick(n, 404, range(8 if tier == "quick" else 2)):
                        continue
                    slay = rz.pick(n, 106, srcs)
                    typed = slay["k"].startswith("typed")
                    dlay = rz.pick(n, 401, dsts["typed" if typed else "dyn"])
                    cases.append(rz.resize_case(pt, sw, sh, dw, dh, alg=alg, flt=flt, m=m, alpha=n % 2 == 0, cpu=rz.pick(n, 102, rz.CPUS),
                                                src_c={"g": "rand", "seed": n, "flo": 0.0, "fhi": 1.0}, src_lay=slay, dst_lay=dlay,
                                                api="typed" if typed else "dyn", log=("digest",), chk=("pipeline", "no_panic", "outside", "srcsame")))
    # 1b. integer down-scales whose windows end exactly at the right / bottom edge with lengths 2..16 (vector loads at the row end),
    #     exactly-sized sources flush against the guard page
    for pt in rz.ALL_PT:
        for f in (2, 3, 4, 5, 6, 7, 8, 10, 12, 15, 16):
            for flt in ("Box", "Bilinear"):
                for (dw, dh) in ((5, 3), (1, 1), (4, 4), (7, 2)):
                    n += 1
                    if rz.pick(n, 407, range(3 if tier == "quick" else 1)):
                        continue
                    horiz = rz.pick(n, 408, [True, False])
                    sw, sh = (dw * f, dh) if horiz else (dw, dh * f)
                    cases.append(rz.resize_case(pt, sw, sh, dw, dh, alg="conv", flt=flt, alpha=False, cpu=rz.pick(n, 409, rz.CPUS),
                                                src_c={"g": "rand", "seed": n, "flo": 0.0, "fhi": 1.0}, src_lay=rz.pick(n, 410, [srcs[0], srcs[4]]),
                                                dst_lay={"k": "slice", "guard": 1} if True else None,
                                                api="dyn", log=("digest",), chk=("pipeline", "no_panic", "outside", "srcsame")))
                    if cases[-1]["src"]["lay"]["k"].startswith("typed"):
                        cases[-1]["api"] = "typed"
                        cases[-1]["dst"]["lay"] = {"k": "typed", "guard": 1}
    # 2. crop boxes: flush against every edge, sub-pixel, rational grid (pipeline-checked)
    Q = 8
    for pt in ("U8", "U8x3", "U8x4", "U16x2", "U16x3", "I32", "F32x3", "F32x4"):
        for (sw, sh) in ((1, 1), (2, 3), (5, 4), (9, 9), (16, 2)):
            boxes = [(Q * sw - 1, 0, 1, Q * sh), (0, Q * sh - 1, Q * sw, 1), (Q * sw - 1, Q * sh - 1, 1, 1), (0, 0, 1, 1), (1, 1, Q * sw - 1, Q * sh - 1),
                     (0, 0, Q * sw, Q * sh), (Q * sw - 3, 0, 3, 1), (0, 0, Q * sw, 1), (Q * (sw - 1), Q * (sh - 1), Q, Q)]
            for box in boxes:
                for (alg, flt, m) in algs:
                    for (dw, dh) in ((1, 1), (3, 2), (9, 5)):
                        n += 1
                        if rz.pick(n, 405, range(6 if tier == "quick" else 2)):
                            continue
                        cases.append(rz.resize_case(pt, sw, sh, dw, dh, alg=alg, flt=flt, m=m, alpha=n % 2 == 0, box=box, Q=Q, cpu=rz.pick(n, 103, rz.CPUS),
                                                    src_c={"g": "rand", "seed": n, "flo": 0.0, "fhi": 1.0}, src_lay=rz.pick(n, 403, srcs[:4]),
                                                    dst_lay=rz.pick(n, 107, dsts["dyn"]), log=("digest",), chk=("pipeline", "no_panic", "outside", "srcsame")))
    # 3. crop boxes outside the rational grid: one ulp inside the right/bottom edge, denormal extents, non-finite, negative
    for pt in ("U8", "U8x4", "U16", "F32", "U16x4"):
        for (sw, sh) in ((1, 1), (4, 3), (100, 2)):
            W, H = float(sw), float(sh)
            crops = [
                [f64bits(nextbelow(W)), 0, f64bits(W - nextbelow(W)), {"n": sh, "q": 1}],          # one ulp wide, flush right
                [0, f64bits(nextbelow(H)), {"n": sw, "q": 1}, f64bits(H - nextbelow(H))],
                [f64bits(nextbelow(W)), f64bits(nextbelow(H)), f64bits(W - nextbelow(W)), f64bits(H - nextbelow(H))],
                [{"n": sw - 1, "q": 1} if sw > 1 else 0, 0, f64bits(nextbelow(1.0)), {"n": sh, "q": 1}],
                [0, 0, "denorm", {"n": sh, "q": 1}], [0, 0, {"n": sw, "q": 1}, "denorm"], ["denorm", "denorm", f64bits(nextbelow(W)), f64bits(nextbelow(H))],
                [f64bits(W - 1e-9), 0, f64bits(1e-9), {"n": sh, "q": 1}], [0, 0, f64bits(1e-300), f64bits(1e-300)],
                ["nan", 0, 1, 1], [0, 0, "inf", 1], ["-inf", 0, 1, 1], [{"n": -1, "q": 2}, 0, 1, 1], [0, {"n": -3, "q": 1}, 1, 1], [0, 0, "nan", "nan"],
                ["max", 0, 1, 1], [0, 0, "max", "max"], ["-0", "-0", {"n": sw, "q": 1}, {"n": sh, "q": 1}],
            ]
            for crop in crops:
                for (alg, flt, m) in algs:
                    for (dw, dh) in ((1, 1), (3, 2), (70, 1)):
                        n += 1
                        if rz.pick(n, 406, range(4 if tier == "quick" else 1)):
                            continue
                        cases.append(raw_crop_case(pt, sw, sh, dw, dh, crop, alg, flt, rz.pick(n, 104, rz.CPUS), n, ("no_panic", "outside", "srcsame"), m=m,
                                                   src_lay=rz.pick(n, 402, srcs[:4]), dst_lay=rz.pick(n, 108, dsts["dyn"])))
    # 4. custom kernels: sum |w| < 4 must neither panic nor crash; beyond that at least no crash / abort
    for pt in rz.ALL_PT:
        for (flt, fparam, support, lim) in (("c_lobes", (12, 64), (3, 2), "nopanic"), ("c_lobes", (45, 64), (3, 2), "nopanic"), ("c_lobes", (47, 64), (3, 2), "nopanic"),
                                            ("c_lobes", (64, 64), (3, 2), "nocrash"), ("c_lobes", (200, 64), (3, 2), "nocrash"), ("c_lobes", (2000, 64), (3, 2), "nocrash"),
                                            ("c_lanczos4", (0, 1), (4, 1), "nopanic"), ("c_tent", (7, 2), (7, 2), "nopanic"), ("c_zero", (0, 1), (2, 1), "nocrash"),
                                            ("c_neg", (0, 1), (1, 1), "nocrash"), ("c_tent", (1, 4), (1, 1000), "nopanic")):
            for (sw, sh, dw, dh) in ((6, 5, 6, 9), (9, 4, 4, 4), (5, 5, 12, 3), (3, 3, 3, 7)):
                for alg in ("conv", "interp", "ss"):
                    n += 1
                    if rz.pick(n, 406, range(4 if tier == "quick" else 1)):
                        continue
                    c = rz.resize_case(pt, sw, sh, dw, dh, alg=alg, flt=flt, m=1, alpha=False, cpu=rz.pick(n, 105, rz.CPUS), support=support,
                                       src_c={"g": "rand", "seed": n, "flo": 0.0, "fhi": 1.0} if n % 2 else
                                             ({"g": "const", "v": [rz.PT[pt]["max"]]} if rz.PT[pt]["comp"] != "f32" else {"g": "const", "v": [rz.f32bits(1.0)]}),
                                       src_lay={"k": "image_ref", "guard": 1}, dst_lay={"k": "slice", "guard": 1}, log=("digest",),
                                       chk=("no_panic" if lim == "nopanic" else "no_crash", "outside", "srcsame"))
                    c["opt"]["fparam"] = {"n": fparam[0], "q": fparam[1]}
                    cases.append(c)
    # 5. a long-lived resizer fed with everything above in random order (histories)
    pool = [c for c in cases if c["op"] == "resize"]
    for k in range(150 if tier == "quick" else 3000):
        c = json.loads(json.dumps(rng.choice(pool)))
        c["rz"] = 900 + k % 3
        c["_spec"]["rz"] = 900 + k % 3
        c["_spec"]["chk"] = [x for x in c["_spec"]["chk"] if x != "pipeline"]
        cases.append(c)
    # 6. one resizer whose scratch buffers grow a little with every call (spare capacity after an amortised doubling), shrink and
    #    grow again: every slice of a temporary image must lie inside the initialised part of its buffer
    from props.c09 import growth_histories
    for hnum, calls in enumerate(growth_histories(tier)):
        cases.append(rz.ctl_case(1000 + hnum, "new"))
        for kw in calls:
            n += 1
            cases.append(rz.resize_case(kw["pt"], kw["sw"], kw["sh"], kw["dw"], kw["dh"], alg=kw["alg"], flt=kw["flt"], m=kw["m"], alpha=True,
                                        cpu=rz.pick(hnum, 411, rz.CPUS), rz=1000 + hnum, src_c={"g": "rand", "seed": n, "flo": 0.0, "fhi": 1.0},
                                        src_lay={"k": "image_ref", "guard": 1}, dst_lay={"k": "slice", "guard": 1}, log=("digest",),
                                        chk=("no_panic", "outside", "srcsame")))
    return cases


def gen_clip(tier, rng):
    """custom kernels with large lobes on the portable 8-bit path, adversarial contents"""
    cases = []
    n = 0
    for pt in ("U8", "U8x2", "U8x3", "U8x4"):
        nc = rz.PT[pt]["nc"]
        for fparam in ((45, 64), (60, 64), (64, 64), (100, 64), (200, 64)):
            for (sw, sh, dw, dh) in ((5, 3, 5, 5), (3, 5, 7, 5), (6, 6, 6, 9)):
                n += 1
                # centre 255 / neighbours 0 and the opposite pattern
                data = []
                for y in range(sh):
                    for x in range(sw):
                        v = 255 if (x + y + n) % 2 == 0 else 0
                        data += [v] * nc
                c = rz.resize_case(pt, sw, sh, dw, dh, alg="interp", flt="c_lobes", alpha=False, cpu="none", support=(3, 2),
                                   src_c={"g": "data", "v": data}, log=("digest", "hooks"), chk=("no_crash", "clip"))
                c["opt"]["fparam"] = {"n": fparam[0], "q": fparam[1]}
                c["_fparam"] = fparam
                cases.append(c)
    return cases


def run(res, tier, seed):
    rng = random.Random(seed)
    for (mod, what) in (("MC_Geometry", "windows and nearest indices inside the source for all small geometries"),
                        ("MC_Resizer", "every call ends in Ok/Err; temporary images fit their buffers"),
                        ("MC_Views", "views expose only cells of their parent"),
                        ("MC_FixedPoint", "clip index inside its table when sum|k| < 2.5 * 2^p")):
        r = vlib.run_tlc_mc(mod, workers=8)
        res.add_mc(r, what)
        if not r["ok"]:
            res.violation(what=mod + " invariant violated", detail=r["error"])
    for (m, inv, expect, what) in (("GeomLemmas", "WindowInside", "NoError", "window inside the source for all sizes < 2^16 (crop inside)"),
                                   ("GeomLemmas", "NearestInside", "NoError", "nearest index inside the source for all sizes < 2^16"),
                                   ("GeomLemmas", "WindowInsideNoCrop", "Error", "without the crop-inside precondition the window leaves the source (counter-example expected)"),
                                   ("FixedLemmas", "ClipIndexOK", "NoError", "clip index inside the table for sum|k| < 2.5 * 2^p, all precisions"),
                                   ("FixedLemmas", "ClipIndexNorm", "NoError", "normalised windows (sum k = 2^p) with sum|k| < 4 * 2^p stay inside the table"),
                                   ("FixedLemmas", "ClipIndexBad", "Error", "sum|k| < 4 * 2^p alone does not (counter-example expected)"),
                                   ("FixedLemmas", "AccFits32", "NoError", "i32 accumulator of the 8-bit kernels cannot overflow: sum|k| < 4 * 2^p, p <= 21, any samples"),
                                   ("FixedLemmas", "AccFits64", "NoError", "i64 accumulator of the 16-bit kernels cannot overflow: sum|k| < 4 * 2^p, p <= 45, any samples"),
                                   ("FixedLemmas", "AccBad32", "Error", "at p = 22 the i32 accumulator can overflow (counter-example expected): the precision cap is necessary")):
        a = vlib.run_apalache(m, inv)
        res.add_lemma(a, expect, what)
        if a["result"] != expect:
            raise vlib.ToolError("lemma %s!%s: %s (expected %s)" % (m, inv, a["result"], expect))
    tw = vlib.run_tlapm("WindowProof")
    res.add_lemma(tw, "Proved", "TLAPS: support window inside the source and around the centre pixel for ALL naturals (crop inside, support >= 1/2)")
    if tw["result"] != "Proved":
        raise vlib.ToolError("TLAPS proof WindowProof: %s" % tw["result"])
    t = vlib.run_tlapm("NearestProof")
    res.add_lemma(t, "Proved", "TLAPS: floor(centre) is an index inside the source for ALL natural sizes and every rational grid (crop inside)")
    if t["result"] != "Proved":
        raise vlib.ToolError("TLAPS proof NearestProof: %s" % t["result"])
    # (A) coefficient windows without pixel data
    ccases = []
    for (i, a, wq, Q, o) in coeffs.geometries(tier, rng):
        for flt in rz.BUILTIN:
            for ad in (True, False):
                ccases.append(coeffs.ccase(i, a, wq, Q, o, flt, ad, 0, ("windows",), vals=False))
    for _ in range(300 if tier == "quick" else 5000):
        i = rng.choice([rng.randint(1, 2000), rng.randint(1, 64)])
        o = rng.choice([rng.randint(1, 2000), rng.randint(1, 64)])
        a = rng.randint(0, 4 * i - 1)
        wq = rng.randint(1, 4 * i - a)
        ccases.append(coeffs.ccase(i, a, wq, 4, o, rng.choice(rz.BUILTIN), rng.random() < 0.5, 0, ("windows",), vals=False))
    bad = coeffs.run_coeff_trace(res, "c03", ccases)
    for (c, r, reason) in bad:
        res.violation(what="C03 coefficients " + reason, reason=reason, filter=c["filter"], case=coeffs.describe(c))
    # (B) boundary executions on both builds
    cases = gen_boundary(tier, rng)
    for profile in ("release", "dbg"):
        bad, recs = rz.run_resize_trace(res, "c03", cases, profile=profile)
        for (c, r, reason) in bad:
            d = rz.describe(c)
            res.violation(what="C03 %s" % reason, reason=reason, build=profile, ret=r.get("ret"), alg=d.get("alg", d.get("op", d.get("ctl"))), pt=d.get("pt"), cpu=d.get("cpu"), filter=d.get("filter"),
                          crop=c.get("opt", {}).get("crop"), fparam=c.get("opt", {}).get("fparam"), case=d)
    # (D) whatever a constructor accepts must be usable: byte buffers at every misalignment 0..7, exact and oversized,
    # for every pixel type; the accepted object is then resized (TraceC04: decision per Geometry!BufferDecisionOK and no
    # panic in the use that follows)
    from props.c04 import PT as PT4
    ucases = []
    for kind in ("Image::from_slice_u8", "ImageRef::new"):
        for pt in rz.ALL_PT:
            size, align = PT4[pt]
            for (w, h) in ((3, 2), (1, 1), (5, 4), (0, 3), (2, 0), (0, 0)):
                for off in range(8):
                    for extra in (0, size, 1):
                        ln = w * h * size + extra
                        ucases.append({"op": "img_ctor", "kind": kind, "pt": pt, "w": w, "h": h, "len": ln, "off": off, "use": 1,
                                       "echo": {"kind": kind, "pt": pt, "w": vlib.limbs(w), "h": vlib.limbs(h), "size": size, "align": align,
                                                "len": vlib.limbs(ln), "off": off}})
    for i, c in enumerate(ucases):
        c["id"] = i
    for profile in ("release", "dbg"):
        binary = vlib.build_harness(profile)
        wd = vlib.workdir("c03_ctor_" + profile)
        urecs, utpath = vlib.run_harness(binary, ucases, wd)
        tr = vlib.run_tlc_trace("TraceC04", utpath)
        res.add_trace(tr, len(ucases), "TraceC04(constructors then use, " + profile + ")")
        for (cid, reason) in tr["bad"]:
            c = ucases[cid]
            res.violation(what="C03 constructor " + reason, reason=reason, build=profile, kind=c["kind"], pt=c["pt"], off=c["off"], len=c["len"],
                          ret=urecs[cid].get("ret"), use=urecs[cid].get("use"))
    # (C) clip-table index for custom kernels on the portable path
    clip = gen_clip(tier, rng)
    # on the debug-assertion build: no panic while sum |w| < 4 (the documented head-room)
    dclip = [json.loads(json.dumps(c)) for c in clip]
    for c in dclip:
        lim = 1 + 4 * c["_fparam"][0] / c["_fparam"][1]
        c["_spec"]["chk"] = ["no_panic" if lim < 4 else "no_crash"]
    bad, _ = rz.run_resize_trace(res, "c03clipdbg", dclip, profile="dbg", keep=("dst",))
    for (c, r, reason) in bad:
        fp = c["_fparam"]
        res.violation(what="C03 custom kernel " + reason, reason=reason, build="dbg", ret=r.get("ret"), pt=c["_spec"]["pt"], fparam=list(fp),
                      sum_abs_w=1 + 4 * fp[0] / fp[1], case=rz.describe(c))
    for c in clip:
        c["_spec"]["chk"] = ["no_crash", "clip"]
    n = len(clip)
    for profile in ("release", "dbg"):
        bad, crecs = rz.run_resize_trace(res, "c03clip", clip, profile=profile, keep=("dst",))
        for (c, r, reason) in bad:
            fp = c["_fparam"]
            res.violation(what="C03 custom kernel " + reason, reason=reason, build=profile, ret=r.get("ret"), pt=c["_spec"]["pt"], fparam=list(fp),
                          sum_abs_w=1 + 4 * fp[0] / fp[1], case=rz.describe(c))
    res.samples = [rz.describe(cases[0]), rz.describe(cases[len(cases) // 2]), rz.describe(cases[-1])]
    res.cov["coefficient_tables"] = len(ccases)
    res.cov["boundary_cases_per_build"] = len(cases)
    res.cov["clip_index_cases"] = n
    res.cov["builds"] = ["release", "dbg (release + debug-assertions + overflow-checks)"]
    res.assumptions += ["memory safety is observed, not proved: reads inside mapped memory that belong to a neighbouring row of a strided parent are only seen for the last row",
                        "SIMD load extents are only observed through guard pages", "NEON/WASM kernels cannot run here"]
