"""C06 -- alpha multiply is exactly rounded, divide is faithful and saturating.

Spec: Alpha.tla (property and the portable algorithms); MC_Alpha: all 65,536 8-bit pairs; lemmas/AlphaLemmas:
all 2^32 16-bit pairs (Apalache). Conformance: exhaustive 8-bit tables through every back-end / entry point / lane
position; 16-bit lattice^2 + seeded pairs (incl. colour > alpha, alpha = 1) and float images judged by TLC with
exact (Wide / dyadic) arithmetic; all variants of one input must agree."""
import random, struct
import vlib, rz

ALPHA_PT = {"U8x2": (2, 255, "u8"), "U8x4": (4, 255, "u8"), "U16x2": (2, 65535, "u16"), "U16x4": (4, 65535, "u16"),
            "F32x2": (2, 0, "f32"), "F32x4": (4, 0, "f32")}
NO_ALPHA = ["U8", "U8x3", "U16", "U16x3", "I32", "F32", "F32x3"]
NCOMP = {"U8": 1, "U8x3": 3, "U16": 1, "U16x3": 3, "I32": 1, "F32": 1, "F32x3": 3}
L16 = [0, 1, 2, 3, 127, 128, 254, 255, 256, 257, 32767, 32768, 32769, 65533, 65534, 65535]
CPUS = ["none", "sse4", "avx2"]


def variants():
    for cpu in CPUS:
        for variant in ("two", "inplace"):
            for api in ("dyn", "typed"):
                yield cpu, variant, api


def img_case(pt, what, cpu, variant, api, w, h, data, grp, tol, threads=1):
    nc, mx, comp = ALPHA_PT[pt]
    op = what + ("_inplace" if variant == "inplace" else "")
    kinds = ("image_ref", "slice") if api == "dyn" else ("typed_ref", "typed")
    case = {"op": op, "api": api, "cpu": cpu, "threads": threads,
            "dst": {"pt": pt, "w": w, "h": h, "lay": {"k": kinds[1], "guard": 1}},
            "log": ["src", "dst", "dst0"] + (["f32d"] if comp == "f32" else []),
            "echo": {"pt": pt, "nc": nc, "max": mx, "comp": comp, "what": what, "grp": grp, "tol": tol,
                     "expect": "ok", "cpu": cpu, "variant": variant, "api": api}}
    content = {"g": "data", "v": data}
    if variant == "inplace":
        case["dst"]["c"] = content
        # the trace needs the input as "src": log dst0 and let the spec read src from it
        case["echo"]["inplace"] = 1
    else:
        case["src"] = {"pt": pt, "w": w, "h": h, "c": content, "lay": {"k": kinds[0], "guard": 1}}
        case["echo"]["inplace"] = 0
    return case


def f32bits(x):
    return struct.unpack("<I", struct.pack("<f", x))[0]


def gen(tier, rng):
    cases = []
    grp = 0
    # A. exhaustive 8-bit tables
    widths = list(range(1, 41)) if tier != "quick" else [1, 2, 3, 4, 5, 7, 8, 9, 15, 16, 17, 31, 32, 33, 40]
    for pt in ("U8x2", "U8x4"):
        for what in ("mul", "div"):
            grp += 1
            for cpu, variant, api in variants():
                cases.append({"op": "alpha_table", "pt": pt, "what": what, "cpu": cpu, "variant": variant, "api": api,
                              "widths": widths,
                              "echo": {"pt": pt, "what": what, "cpu": cpu, "variant": variant, "api": api, "grp": grp}})
    # B. 16-bit: lattice^2 and seeded pairs in images of lane-covering widths
    ngroups = 4 if tier == "quick" else 96
    npix = 192 if tier == "quick" else 1600
    lat_pairs = [(c, a) for c in L16 for a in L16]
    for pt in ("U16x2", "U16x4"):
        nc = ALPHA_PT[pt][0]
        for what in ("mul", "div"):
            for g in range(ngroups):
                grp += 1
                w = rz.pick(g, 128, [1, 3, 4, 5, 7, 8, 9, 13, 16, 17, 31, 33])
                h = max(1, npix // w)
                data = []
                for i in range(w * h):
                    if g % 2 == 0:
                        c, a = lat_pairs[(i + g * 97) % len(lat_pairs)]
                        cs = [c] + [lat_pairs[(i * 7 + k * 31 + g) % len(lat_pairs)][0] for k in range(nc - 2)]
                    else:
                        r = rng.random()
                        a = rng.choice([1, 1, 2, 3, 255, 65535]) if r < 0.3 else rng.randint(0, 65535)
                        cs = [rng.randint(0, 65535) if rng.random() < 0.5 else rng.randint(0, max(a, 1)) for _ in range(nc - 1)]
                    data += cs + [a]
                if g % 4 == 3:
                    # alpha in runs of equal values (max / 0 / 1 / other) at every alignment: data-dependent kernel branches
                    i = 0
                    while i < w * h:
                        L = rng.randint(1, 12)
                        av = rng.choice([65535, 65535, 0, 1, rng.randint(0, 65535)])
                        for k in range(i, min(w * h, i + L)):
                            data[k * nc + nc - 1] = av
                        i += L
                for cpu, variant, api in variants():
                    cases.append(img_case(pt, what, cpu, variant, api, w, h, data, grp, "pm1" if what == "div" else "exact"))
    # C. floats
    ngroups = 3 if tier == "quick" else 12
    npix = 96 if tier == "quick" else 320
    for pt in ("F32x2", "F32x4"):
        nc = ALPHA_PT[pt][0]
        for what in ("mul", "div"):
            for g in range(ngroups):
                grp += 1
                w = rz.pick(g, 129, [1, 3, 4, 5, 7, 8, 9, 16, 17])
                h = max(1, npix // w)
                data = []
                for i in range(w * h):
                    r = rng.random()
                    if r < 0.1:
                        a = 0.0
                    elif r < 0.2:
                        a = 1.0
                    elif r < 0.3:
                        a = rng.choice([-1, 1]) * 2.0 ** rng.randint(-30, 30)
                    else:
                        a = rng.random()
                    cs = []
                    for _ in range(nc - 1):
                        r = rng.random()
                        if r < 0.1:
                            cs.append(0.0)
                        elif r < 0.2:
                            cs.append(rng.uniform(-2, 2) * 2.0 ** rng.randint(-30, 30))
                        elif r < 0.3:
                            cs.append(-rng.random())
                        else:
                            cs.append(rng.random())
                    data += [f32bits(x) for x in cs] + [f32bits(a)]
                if g % 3 == 2:
                    # alpha in runs of equal values (1.0 / 0.0 / other) at every alignment
                    i = 0
                    while i < w * h:
                        L = rng.randint(1, 12)
                        av = f32bits(rng.choice([1.0, 1.0, 0.0, rng.random()]))
                        for k in range(i, min(w * h, i + L)):
                            data[k * nc + nc - 1] = av
                        i += L
                for cpu, variant, api in variants():
                    cases.append(img_case(pt, what, cpu, variant, api, w, h, data, grp, "ulp2" if what == "div" else "exact"))
    # E. pixel types without alpha must be rejected and leave the destination alone
    for pt in NO_ALPHA:
        for what in ("mul", "div"):
            for variant in ("two", "inplace"):
                for api in ("dyn", "typed"):
                    grp += 1
                    op = what + ("_inplace" if variant == "inplace" else "")
                    kinds = ("image_ref", "slice") if api == "dyn" else ("typed_ref", "typed")
                    case = {"op": op, "api": api, "cpu": rng.choice(CPUS),
                            "dst": {"pt": pt, "w": 5, "h": 3, "lay": {"k": kinds[1]}, "c": {"g": "rand", "seed": grp}},
                            "log": ["src", "dst", "dst0"],
                            "echo": {"pt": pt, "nc": NCOMP[pt], "max": 0, "comp": "x", "what": what, "grp": grp, "tol": "exact",
                                     "expect": "unsupported", "inplace": 1 if variant == "inplace" else 0}}
                    if variant == "two":
                        case["src"] = {"pt": pt, "w": 5, "h": 3, "c": {"g": "rand", "seed": grp + 1}, "lay": {"k": kinds[0]}}
                    cases.append(case)
    # F. size mismatch, G. zero-sized images
    for pt in ALPHA_PT:
        nc, mx, comp = ALPHA_PT[pt]
        for what in ("mul", "div"):
            for api in ("dyn", "typed"):
                grp += 1
                kinds = ("image_ref", "slice") if api == "dyn" else ("typed_ref", "typed")
                cases.append({"op": what, "api": api, "cpu": "avx2",
                              "src": {"pt": pt, "w": 3, "h": 2, "c": {"g": "rand", "seed": grp, "flo": 0.0, "fhi": 1.0}, "lay": {"k": kinds[0]}},
                              "dst": {"pt": pt, "w": 2, "h": 3, "lay": {"k": kinds[1]}, "c": {"g": "rand", "seed": grp + 5}},
                              "log": ["src", "dst", "dst0"],
                              "echo": {"pt": pt, "nc": nc, "max": mx, "comp": comp, "what": what, "grp": grp, "tol": "exact",
                                       "expect": "size", "inplace": 0}})
                for (zw, zh) in ((0, 0), (0, 4), (4, 0)):
                    grp += 1
                    c = img_case(pt, what, "avx2", "two", api, zw, zh, [], grp, "exact")
                    if comp == "f32":
                        c["log"] = ["src", "dst", "dst0"]
                        c["echo"]["comp"] = "u16"   # nothing to judge numerically in an empty image
                        c["echo"]["max"] = 65535
                    cases.append(c)
    return cases


def run(res, tier, seed):
    rng = random.Random(seed)
    r = vlib.run_tlc_mc("MC_Alpha", workers=8)
    res.add_mc(r, "all 65,536 8-bit pairs: portable algorithm = round(c*a/255), divide in {floor,ceil} saturated; Wide 16-bit operators on lattice^2")
    if not r["ok"]:
        res.violation(what="MC_Alpha invariant violated", detail=r["error"])
    for inv, expect, what in (("Mul16Exact", "NoError", "mul_div_65535 = round(c*a/65535) for all 2^32 pairs"),
                              ("Div16Faithful", "NoError", "reciprocal divide faithful+saturating for all 2^32 pairs (ideal arithmetic)"),
                              ("Div16FitsU64", "Error", "u64 product overflows for alpha=1, colour>=32769 (counter-example expected)"),
                              ("Div16SatFix", "NoError", "saturating product gives the ideal result"),
                              ("Mul8Exact", "NoError", "8-bit multiply")):
        a = vlib.run_apalache("AlphaLemmas", inv)
        res.add_lemma(a, expect, what)
        if a["result"] != expect:
            raise vlib.ToolError("lemma AlphaLemmas!%s: %s (expected %s)" % (inv, a["result"], expect))
    cases = gen(tier, rng)
    for i, c in enumerate(cases):
        c["id"] = i
    for profile in ("release", "dbg"):
        binary = vlib.build_harness(profile)
        wd = vlib.workdir("c06_" + profile)
        recs, tpath = vlib.run_harness(binary, cases, wd)
        tr = vlib.run_tlc_trace("TraceC06", tpath, xmx="16g")
        res.add_trace(tr, len(cases), "TraceC06(" + profile + ")")
        rec = {r_["id"]: r_ for r_ in recs}
        for (cid, reason) in tr["bad"]:
            c = cases[cid]
            e = c["echo"]
            res.violation(what="C06 " + reason, reason=reason, build=profile, op=c["op"], pt=e["pt"], cpu=c.get("cpu"),
                          variant=e.get("variant"), api=c.get("api"), ret=rec[cid].get("ret"),
                          detail=first_diff(c, rec[cid]), case_id=cid, dims=[c["dst"]["w"], c["dst"]["h"]] if "dst" in c else None)
    res.samples = [{k: (c[k] if k != "dst" and k != "src" else "...") for k in c if k != "echo"} for c in (cases[0], cases[60], cases[-1])]
    res.cov["cases_per_build"] = len(cases)
    res.cov["pairs_8bit"] = "all 65536 x {U8x2,U8x4} x {mul,div} x 12 variants x %d row widths" % (15 if tier == "quick" else 40)
    res.assumptions += ["16-bit: the implementation is executed on lattice^2 + seeded pairs; all 2^32 pairs only at the level of the specified algorithm (lemmas)",
                        "float divide judged within 2^-22 relative, float multiply as the correctly rounded product"]


def first_diff(c, rec):
    """human-readable hint for the replay file (not a verdict)"""
    if "src" in rec and "dst" in rec and len(rec["src"]) == len(rec["dst"]):
        nc = c["echo"].get("nc", 1)
        out = []
        for p in range(len(rec["src"]) // nc):
            px = rec["src"][p * nc:(p + 1) * nc]
            po = rec["dst"][p * nc:(p + 1) * nc]
            out.append((px, po))
        return out[:4]
    return None
