"""C11 -- nearest-neighbour resizing picks the source pixel under each destination centre.

Spec: Geometry!NearestSet (exact rational centre, both neighbours at an exact tie, inside the source) and the Resizer
pipeline (Call, Dispatch, Nearest, Ret -- no alpha phases). MC_Geometry checks index-inside-source for all small geometries,
lemmas/NearestLemmas for all sizes < 2^16. Conformance: identity-tagged sources of every pixel type, edge-flush and sub-pixel
crops, 1-pixel sources, extreme ratios; buffers end at a guard page; TLC compares every destination pixel with the
candidates of NearestSet."""
import random
import vlib, rz
from props.c12 import tags, report


def gen(tier, rng):
    cases = []
    Q = 4
    sizes = [1, 2, 3, 5, 8, 13] if tier == "quick" else [1, 2, 3, 4, 5, 7, 8, 13, 16, 21]
    n = 0
    for pt in rz.ALL_PT:
        for sw in sizes:
            for sh in (sizes[(sizes.index(sw) + 2) % len(sizes)], 1):
                for dw in [1, 2, 3, 7, sw, 2 * sw + 1]:
                    dh = [1, 3, sh, 2 * sh + 1][(n // 2) % 4]
                    n += 1
                    if tier == "quick" and rz.pick(n, 133, [0, 0, 1]):
                        continue
                    boxes = [None]
                    # edge-flush and sub-pixel crops (units of 1/4 pixel)
                    if sw >= 2:
                        boxes += [(Q * sw - 1, 0, 1, Q * sh), (1, 1, Q * sw - 1, Q * sh - 1), (Q, 0, Q * (sw - 1), Q * sh)]
                    boxes += [(Q * sw - 2, Q * sh - 3 if sh > 0 and Q * sh > 3 else 0, 2, 3 if Q * sh >= 3 else Q * sh), (0, 0, 1, 1),
                              (0, 0, Q * sw, 1), (2, 0, Q * sw - 2, Q * sh)]
                    # fractional right / bottom edges (the crop ends inside a pixel)
                    if sw >= 2 and sh >= 2:
                        boxes += [(1, 0, Q * sw - 3, Q * sh), (0, 1, Q * sw, Q * sh - 2), (2, 3, Q * sw - 5 if Q * sw > 5 else 1, Q * sh - 5 if Q * sh > 5 else 1),
                                  (Q, Q, Q * sw - Q - 1, Q * sh - Q - 3 if Q * sh - Q > 3 else 1), (3, 2, 2, 2)]
                    box = rz.pick(n, 132, boxes)
                    lay = [{"k": "image_ref", "guard": 1}, {"k": "typed_ref", "guard": 1}, {"k": "crop_ref", "pad": [0, 1, 0, 0], "guard": 1},
                           {"k": "image_ref", "guard": 2}][n % 4]
                    typed = lay["k"].startswith("typed")
                    cases.append(rz.resize_case(pt, sw, sh, dw, dh, alg="nearest", alpha=(n % 3 == 0), box=box, Q=Q, cpu=rz.pick(n, 130, rz.CPUS),
                                                src_c={"g": "data", "v": tags(pt, sw, sh, rng)}, src_lay=lay,
                                                dst_lay={"k": "typed", "guard": 1} if typed else {"k": "slice", "guard": 1},
                                                api="typed" if typed else "dyn", log=("src", "dst"),
                                                chk=("pipeline", "ret_ok", "near", "outside", "srcsame")))
    # whole-number scale factors with every quarter-pixel crop origin (an integer fast path must not drop the fraction)
    for fx in (1, 2, 3, 4, 5, 7):
        for dw in (1, 2, 3):
            for ax in range(4):
                for ay in range(4):
                    n += 1
                    fy = rz.pick(n, 134, [1, 2, 3, 5])
                    dh = rz.pick(n, 135, [1, 2, 4])
                    ox, oy = rz.pick(n, 136, [0, 1, 2]), rz.pick(n, 137, [0, 1])
                    sw, sh = fx * dw + ox + 1, fy * dh + oy + 1
                    box = (Q * ox + ax, Q * oy + ay, Q * fx * dw, Q * fy * dh)
                    pt = rz.pick(n, 138, rz.ALL_PT)
                    lay = rz.pick(n, 139, [{"k": "image_ref", "guard": 1}, {"k": "typed_ref", "guard": 1}, {"k": "crop_ref", "pad": [1, 1, 0, 2], "guard": 1}])
                    typed = lay["k"].startswith("typed")
                    cases.append(rz.resize_case(pt, sw, sh, dw, dh, alg="nearest", alpha=False, box=box, Q=Q, cpu=rz.pick(n, 130, rz.CPUS),
                                                src_c={"g": "data", "v": tags(pt, sw, sh, rng)}, src_lay=lay,
                                                dst_lay={"k": "typed", "guard": 1} if typed else {"k": "slice", "guard": 1},
                                                api="typed" if typed else "dyn", log=("src", "dst"),
                                                chk=("pipeline", "ret_ok", "near", "outside", "srcsame")))
    if tier != "quick":
        for i in range(6000):
            kw = rz.random_resize_kw(rng, algs=[("nearest", 1)], maxdim=24)
            lay = rng.choice([{"k": "image_ref", "guard": 1}, {"k": "typed_ref", "guard": 1}, {"k": "crop_ref", "pad": [0, 1, 0, 0], "guard": 1},
                              {"k": "crop_ref", "pad": [2, 1, 1, 3], "guard": 1}, {"k": "image_ref", "guard": 2}])
            typed = lay["k"].startswith("typed")
            cases.append(rz.resize_case(kw["pt"], kw["sw"], kw["sh"], kw["dw"], kw["dh"], alg="nearest", alpha=kw["alpha"], box=kw["box"], Q=kw["Q"],
                                        cpu=kw["cpu"], src_c={"g": "data", "v": tags(kw["pt"], kw["sw"], kw["sh"], rng)}, src_lay=lay,
                                        dst_lay={"k": "typed", "guard": 1} if typed else {"k": "slice", "guard": 1}, api="typed" if typed else "dyn",
                                        log=("src", "dst"), chk=("pipeline", "ret_ok", "near", "outside", "srcsame")))
    # crop boxes narrower than any rational grid: one ulp wide and flush against the right / bottom edge, 1e-9 wide, just
    # under one pixel -- confined to one source column / row, so every destination pixel comes from it
    from props.c03 import f64bits, nextbelow
    for pt in ("U8", "U8x4", "U16x3", "F32", "I32", "U16x2"):
        for (sw, sh) in ((1, 1), (4, 3), (9, 2), (100, 2)):
            W, H = float(sw), float(sh)
            full_w, full_h = {"n": sw, "q": 1}, {"n": sh, "q": 1}
            cells = [([f64bits(nextbelow(W)), 0, f64bits(W - nextbelow(W)), full_h], (sw - 1, -1)),
                     ([0, f64bits(nextbelow(H)), full_w, f64bits(H - nextbelow(H))], (-1, sh - 1)),
                     ([f64bits(nextbelow(W)), f64bits(nextbelow(H)), f64bits(W - nextbelow(W)), f64bits(H - nextbelow(H))], (sw - 1, sh - 1)),
                     ([{"n": sw - 1, "q": 1}, 0, f64bits(nextbelow(1.0)), full_h], (sw - 1, -1)),
                     ([f64bits(W - 1e-9), 0, f64bits(1e-9), full_h], (sw - 1, -1)),
                     ([0, f64bits(H - 1e-9), full_w, f64bits(1e-9)], (-1, sh - 1)),
                     ([f64bits(1e-300), f64bits(1e-300), f64bits(1e-300), f64bits(1e-300)], (0, 0))]
            for (crop, cell) in cells:
                for (dw, dh) in ((1, 1), (3, 2), (70, 1), (2, 9)):
                    n += 1
                    if tier == "quick" and rz.pick(n, 140, [0, 1]):
                        continue
                    lay = rz.pick(n, 141, [{"k": "image_ref", "guard": 1}, {"k": "crop_ref", "pad": [0, 1, 0, 0], "guard": 1}, {"k": "image_ref", "guard": 2}])
                    c = rz.resize_case(pt, sw, sh, dw, dh, alg="nearest", alpha=False, cpu=rz.pick(n, 130, rz.CPUS),
                                       src_c={"g": "data", "v": tags(pt, sw, sh, rng)}, src_lay=lay, dst_lay={"k": "slice", "guard": 1},
                                       log=("src", "dst"), chk=("ret_ok", "near_cell", "outside", "srcsame"), echo={"cell": list(cell)})
                    c["opt"]["crop"] = crop
                    cases.append(c)
    # extreme ratios in strips
    for pt in ("U8", "U16x3", "F32x4", "U8x4", "I32"):
        for (sw, sh, dw, dh) in ((200, 1, 1, 1), (1, 200, 3, 1), (1, 1, 97, 2), (3, 2, 120, 1), (255, 1, 2, 1), (2, 1, 255, 1)):
            n += 1
            cases.append(rz.resize_case(pt, sw, sh, dw, dh, alg="nearest", alpha=False, cpu=rz.pick(n, 131, rz.CPUS),
                                        src_c={"g": "data", "v": tags(pt, sw, sh, rng)}, src_lay={"k": "image_ref", "guard": 1},
                                        dst_lay={"k": "slice", "guard": 1}, log=("src", "dst"),
                                        chk=("pipeline", "ret_ok", "near", "outside", "srcsame")))
    return cases


def run(res, tier, seed):
    rng = random.Random(seed)
    r = vlib.run_tlc_mc("MC_Geometry", workers=8)
    res.add_mc(r, "nearest index inside the source, window invariants, pass planning: all geometries with sizes <= 6, quarter-pixel crops")
    if not r["ok"]:
        res.violation(what="MC_Geometry invariant violated", detail=r["error"])
    a = vlib.run_apalache("GeomLemmas", "NearestInside")
    res.add_lemma(a, "NoError", "floor(centre) lies inside the source for all sizes < 2^16 and all valid quarter-pixel crops")
    if a["result"] != "NoError":
        raise vlib.ToolError("lemma GeomLemmas!NearestInside: %s" % a["result"])
    t = vlib.run_tlapm("NearestProof")
    res.add_lemma(t, "Proved", "TLAPS: floor(centre) is an index inside the source for ALL natural sizes and every rational grid (crop inside)")
    if t["result"] != "Proved":
        raise vlib.ToolError("TLAPS proof NearestProof: %s" % t["result"])
    cases = gen(tier, rng)
    bad, recs = rz.run_resize_trace(res, "c11", cases)
    report(res, "C11", bad)
    res.samples = [rz.describe(c) for c in (cases[0], cases[len(cases) // 2], cases[-1])]
    res.cov["cases"] = len(cases)
    res.assumptions += ["at an exact tie of the rational centre both neighbouring pixels are accepted (the statement's floating-point noise clause)"]
