"""C13 -- the result does not depend on the container or memory layout of the images.

Spec: Views!Rows (a view exposes exactly its rectangle of the parent; MC_Views) and the observation memo of ResizeChecks
keyed without container / placement. Conformance: each logical call (resize with every algorithm, alpha multiply/divide,
colour mapping, component conversion) is executed through owned images, borrowed slices, image references, typed images,
typed references, cropped and nested-cropped views at several placements inside larger parents, with buffers ending at a
guard page, through the dynamic and the typed entry points; TLC requires one value per logical call."""
import random
import vlib, rz
from props.c05 import DYN_PAIRS, TYPED_PAIRS, lay_with_guard
from props.c12 import report

EXTRA_DYN = [({"k": "crop", "pad": [3, 0, 0, 2]}, {"k": "crop_mut", "pad": [0, 0, 3, 3]}),
             ({"k": "crop_ref", "pad": [1, 3, 2, 1]}, {"k": "crop_mut", "pad": [1, 1, 0, 0]}),
             ({"k": "nested", "pad": [1, 3, 3, 2]}, {"k": "nested_mut", "pad": [3, 1, 1, 3]}),
             ({"k": "slice", "extra": 9}, {"k": "slice", "extra": 0})]
EXTRA_TYPED = [({"k": "typed_crop", "pad": [0, 3, 2, 0]}, {"k": "typed_crop_mut", "pad": [0, 2, 0, 1]}),
               ({"k": "typed_nested", "pad": [3, 1, 1, 2]}, {"k": "typed_nested_mut", "pad": [1, 3, 2, 0]})]


def gen(tier, rng):
    cases = []
    g = 0
    geoms = [(9, 7, 4, 3, None, 1), (5, 5, 12, 8, None, 1), (10, 6, 6, 6, (3, 2, 13, 9), 2), (8, 8, 8, 3, None, 1), (3, 4, 1, 1, None, 1),
             (17, 3, 5, 2, None, 1), (33, 2, 9, 2, (1, 0, 64, 4), 2)]
    algs = [("nearest", "Box", 1), ("conv", "Lanczos3", 1), ("conv", "Box", 1), ("interp", "CatmullRom", 1), ("ss", "Bilinear", 2)]
    n = 0
    for pt in rz.ALL_PT:
        for (sw, sh, dw, dh, box, Q) in geoms:
            for (alg, flt, m) in algs:
                n += 1
                if tier == "quick" and n % 5 != 0:
                    continue
                g += 1
                seed = rng.randint(1, 10 ** 9)
                cpu = rz.pick(n, 126, rz.CPUS)
                layouts = [("dyn", p) for p in DYN_PAIRS + EXTRA_DYN] + [("typed", p) for p in TYPED_PAIRS + EXTRA_TYPED]
                for j, (api, (slay, dlay)) in enumerate(layouts):
                    guard = 1 if j % 3 else 2
                    cases.append(rz.resize_case(pt, sw, sh, dw, dh, alg=alg, flt=flt, m=m, alpha=(n % 2 == 0), box=box, Q=Q, cpu=cpu,
                                                src_c={"g": "rand", "seed": seed, "flo": 0.0, "fhi": 1.0},
                                                src_lay=lay_with_guard(slay, guard) if slay else None,
                                                dst_lay=lay_with_guard(dlay, guard) if dlay else {"k": "image"}, api=api, log=("digest",),
                                                chk=("pipeline", "ret_ok", "outside", "srcsame") + (("memo_exact",) if j else ()), g=g))
    # images large enough for the rayon layer to cut source and destination views into bands (4 threads): the band
    # splitting of every container kind must hand out the same pixels
    for (pt, alpha, alg, flt, geo, box) in (("U16x3", False, "conv", "Bilinear", (130, 110, 70, 60), None), ("U8x4", True, "conv", "Lanczos3", (120, 100, 64, 100), None),
                                            ("F32x2", True, "conv", "CatmullRom", (110, 120, 60, 50), (20, 40, 80, 70)), ("U8", False, "interp", "Hamming", (128, 96, 128, 50), None),
                                            ("U16x2", True, "ss", "Box", (140, 120, 40, 40), None)):
        n += 1
        g += 1
        seed = rng.randint(1, 10 ** 9)
        sw, sh, dw, dh = geo
        layouts = [("dyn", p) for p in DYN_PAIRS + EXTRA_DYN] + [("typed", p) for p in TYPED_PAIRS + EXTRA_TYPED]
        for j, (api, (slay, dlay)) in enumerate(layouts):
            cases.append(rz.resize_case(pt, sw, sh, dw, dh, alg=alg, flt=flt, m=2, alpha=alpha, box=box, Q=1, cpu=rz.pick(n, 126, rz.CPUS),
                                        src_c={"g": "rand", "seed": seed, "flo": 0.0, "fhi": 1.0},
                                        src_lay=lay_with_guard(slay, 1) if slay else None,
                                        dst_lay=lay_with_guard(dlay, 1) if dlay else {"k": "image"}, api=api, threads=4, log=("digest",),
                                        chk=("pipeline", "ret_ok", "outside", "srcsame") + (("memo_exact",) if j else ()), g=g))
    # Nearest at geometries where a row (column) centre falls exactly on a pixel boundary although the scale is not a
    # binary fraction: there the chosen row is decided by the last bit of a floating-point expression, so containers whose
    # row iterators evaluate the position differently would disagree (the tie itself may go either way -- C11 -- but all
    # containers must make the same choice)
    ties = []
    for sh in range(2, 25):
        for dh in range(2, 25):
            if sh == dh or (sh * 64) % dh == 0:
                continue
            if any(((2 * i + 1) * sh) % (2 * dh) == 0 for i in range(2, dh)):
                ties.append((sh, dh))
    if tier == "quick":
        ties = [ties[rz.pick(k, 128, range(len(ties)))] for k in range(14)]
    for k, (sh, dh) in enumerate(ties):
        for pt in (("U8", "U16x3", "F32x4") if tier == "quick" else ("U8", "U8x4", "U16x3", "F32x4", "I32")):
            n += 1
            g += 1
            sw, dw = rz.pick(n, 129, [(3, 5), (7, 2), (4, 4), (2, 7)])
            # the same tie-prone pair along x for every other case
            if n % 2:
                sw, dw = sh, dh
            seed = rng.randint(1, 10 ** 9)
            layouts = [("dyn", p) for p in DYN_PAIRS + EXTRA_DYN] + [("typed", p) for p in TYPED_PAIRS + EXTRA_TYPED]
            for j, (api, (slay, dlay)) in enumerate(layouts):
                cases.append(rz.resize_case(pt, sw, sh, dw, dh, alg="nearest", alpha=False, cpu=rz.pick(n, 126, rz.CPUS),
                                            src_c={"g": "rand", "seed": seed, "flo": 0.0, "fhi": 1.0},
                                            src_lay=lay_with_guard(slay, 1) if slay else None,
                                            dst_lay=lay_with_guard(dlay, 1) if dlay else {"k": "image"}, api=api, log=("digest",),
                                            chk=("pipeline", "ret_ok", "outside", "srcsame") + (("memo_exact",) if j else ()), g=g))
    if tier != "quick":
        for i in range(1500):
            kw = rz.random_resize_kw(rng)
            g += 1
            seed = rng.randint(1, 10 ** 9)
            layouts = [("dyn", p) for p in DYN_PAIRS + EXTRA_DYN] + [("typed", p) for p in TYPED_PAIRS + EXTRA_TYPED]
            rng.shuffle(layouts)
            for j, (api, (slay, dlay)) in enumerate(layouts[:8]):
                cases.append(rz.resize_case(kw["pt"], kw["sw"], kw["sh"], kw["dw"], kw["dh"], alg=kw["alg"], flt=kw["flt"], m=kw["m"], alpha=kw["alpha"],
                                            box=kw["box"], Q=kw["Q"], cpu=kw["cpu"], src_c={"g": "rand", "seed": seed, "flo": 0.0, "fhi": 1.0},
                                            src_lay=lay_with_guard(slay, 1) if slay else None, dst_lay=lay_with_guard(dlay, 1) if dlay else {"k": "image"},
                                            api=api, log=("digest",), chk=("pipeline", "ret_ok", "outside", "srcsame") + (("memo_exact",) if j else ()), g=g))
    # alpha operations, mapping, conversion
    ops = [(op, pt, pt, None) for pt in ("U8x2", "U8x4", "U16x2", "U16x4", "F32x2", "F32x4") for op in ("mul", "div")]
    ops += [("map", "U8x3", "U16x3", ("srgb", "f")), ("map", "U16x4", "U8x4", ("gamma", "b")), ("map", "U8", "U8", ("srgb", "b")),
            ("convert", "U8x4", "F32x4", None), ("convert", "U16", "U8", None), ("convert", "F32x3", "U16x3", None), ("convert", "I32", "U16", None)]
    for (op, spt, dpt, mp) in ops:
        for (w, h) in ((7, 4), (18, 3), (1, 9)):
            g += 1
            seed = rng.randint(1, 10 ** 9)
            same = spt == dpt and op in ("mul", "div")
            layouts = [("dyn", p) for p in DYN_PAIRS + EXTRA_DYN]
            if same:
                layouts += [("typed", p) for p in TYPED_PAIRS + EXTRA_TYPED]
            for j, (api, (slay, dlay)) in enumerate(layouts):
                cases.append(rz.img_case(op, dpt, w, h, src_pt=spt, src_c={"g": "rand", "seed": seed, "flo": 0.0, "fhi": 1.0},
                                         src_lay=lay_with_guard(slay, 1) if slay else None,
                                         dst_lay=lay_with_guard(dlay, 1) if dlay else {"k": "image"}, api=api, cpu=rz.pick(g, 127, rz.CPUS),
                                         log=("digest",), chk=("ret_ok", "outside", "srcsame") + (("memo_exact",) if j else ()), g=g,
                                         mapper=mp[0] if mp else None, direction=mp[1] if mp else None))
    # in-place alpha operations: the same pixels inside every kind of mutable container, dynamic and typed entry points
    dyn_dst = [{"k": "image"}, {"k": "slice", "extra": 0}, {"k": "slice", "extra": 7}, {"k": "crop_mut", "pad": [1, 0, 2, 1]},
               {"k": "crop_mut", "pad": [0, 3, 0, 0]}, {"k": "nested_mut", "pad": [2, 1, 1, 2]}]
    typed_dst = [{"k": "typed"}, {"k": "typed", "extra": 5}, {"k": "typed_crop_mut", "pad": [3, 1, 0, 2]}, {"k": "typed_crop_mut", "pad": [0, 2, 1, 0]}]
    for pt in ("U8x2", "U8x4", "U16x2", "U16x4", "F32x2", "F32x4"):
        for op in ("mul_inplace", "div_inplace"):
            for (w, h) in ((7, 4), (18, 3), (1, 9)):
                g += 1
                seed = rng.randint(1, 10 ** 9)
                cont = {"g": "rand", "seed": seed, "flo": 0.05, "fhi": 1.0}
                cpu = rz.pick(g, 127, rz.CPUS)
                for j, (api, dlay) in enumerate([("dyn", d) for d in dyn_dst] + [("typed", d) for d in typed_dst]):
                    cases.append(rz.img_case(op, pt, w, h, dst_c=cont, dst_lay=lay_with_guard(dlay, 1) if dlay["k"] != "image" else {"k": "image"},
                                             api=api, cpu=cpu, log=("digest",), chk=("ret_ok", "outside") + (("memo_exact",) if j else ()), g=g))
    return cases


ROW_KINDS = ["typed", "typed_ref", "typed_crop", "typed_crop_mut", "nested", "nested_mut"]


def rows_cases(tier, rng):
    """the row iterators of every container kind, read back through identity tags"""
    cases = []
    pads = [(0, 0, 0, 0), (1, 2, 1, 0), (2, 1, 0, 3), (0, 3, 2, 1), (3, 5, 1, 2)]
    sizes = [(0, 0), (0, 3), (3, 0), (1, 1), (2, 5), (5, 2), (4, 4), (3, 9), (7, 6)]
    n = 0
    for kind in ROW_KINDS:
        for (w, h) in sizes:
            for pad in pads:
                n += 1
                l, t, r, b = pad
                if kind in ("typed", "typed_ref"):
                    l = t = r = b = 0
                else:
                    if w == 0:
                        r = max(r, 1)
                    if h == 0:
                        b = max(b, 1)
                pw, ph = w + l + r, h + t + b
                calls, ecalls = [], []
                for start in range(0, h + 2):
                    calls.append({"m": "iter_rows", "start": start})
                    if kind in ("typed", "typed_crop_mut", "nested_mut") and start <= h:
                        calls.append({"m": "iter_rows_mut", "start": start})
                    for mx in sorted({0, 1, h - 1, h, h + 3} - {-1}):
                        if mx >= start or rz.pick(n + start + mx, 501, [0, 1]):
                            calls.append({"m": "iter_2_rows", "start": start, "max": mx})
                            calls.append({"m": "iter_4_rows", "start": start, "max": mx})
                if kind in ("typed", "typed_crop_mut", "nested_mut"):
                    calls += [{"m": "iter_2_rows_mut"}, {"m": "iter_4_rows_mut"}]
                q = 4
                for (y0n, stepn, mx) in ((0, q, h), (2, q, h + 1), (1, 1, 3 * h + 2), (0, 3 * q, 2), (q * max(h - 1, 0), 2, 5), (3, 5, 7), (0, q * (h + 1), 1),
                                         (q * h, q, 2), (2, 2 * q + 1, h)):
                    calls.append({"m": "step", "y0": {"n": y0n, "q": q}, "step": {"n": stepn, "q": q}, "max": mx, "y0n": y0n, "stepn": stepn, "q": q})
                case = {"op": "rows", "kind": kind, "pw": pw, "ph": ph, "calls": calls}
                if kind.startswith("nested"):
                    o = (l // 2, t // 2, r // 2, b // 2)
                    case["outer"] = list(o)
                    case["view"] = [l - o[0], t - o[1], w, h]
                else:
                    case["view"] = [l, t, w, h]
                case["echo"] = {"al": l, "at": t, "w": w, "h": h, "kind": kind,
                                "calls": [{k: v for k, v in c.items() if k not in ("y0", "step")} for c in calls]}
                cases.append(case)
    return cases


def run(res, tier, seed):
    rng = random.Random(seed)
    r = vlib.run_tlc_mc("MC_Views", cfg="MC_Rows.cfg", workers=4)
    res.add_mc(r, "row iterators (iter_rows / iter_N_rows / iter_rows_with_step) stay inside the view, in order; all views in parents <= 4x4")
    if not r["ok"]:
        res.violation(what="MC_Rows invariant violated", detail=r["error"])
    rcases = rows_cases(tier, rng)
    for i, c in enumerate(rcases):
        c["id"] = i
    for profile in ("release", "dbg"):
        binary = vlib.build_harness(profile)
        wd = vlib.workdir("c13rows_" + profile)
        recs, tpath = vlib.run_harness(binary, rcases, wd)
        tr = vlib.run_tlc_trace("TraceRows", tpath)
        res.add_trace(tr, len(rcases), "TraceRows(" + profile + ")")
        for (cid, reason) in tr["bad"]:
            c = rcases[cid]
            res.violation(what="C13 row iterator " + reason, reason=reason, build=profile, kind=c["kind"], view=c["view"], ret=recs[cid].get("ret"))
    res.cov["row_iterator_cases_per_build"] = len(rcases)
    res.cov["row_iterator_calls"] = sum(len(c["calls"]) for c in rcases)
    r = vlib.run_tlc_mc("MC_Views", workers=8)
    res.add_mc(r, "a view exposes exactly its rectangle; splits tile; all views in parents <= 3x3")
    if not r["ok"]:
        res.violation(what="MC_Views invariant violated", detail=r["error"])
    cases = gen(tier, rng)
    bad, recs = rz.run_resize_trace(res, "c13", cases)
    report(res, "C13", bad)
    res.samples = [rz.describe(c) for c in (cases[0], cases[7], cases[-1])]
    res.cov["cases"] = len(cases)
    res.cov["layouts_per_logical_call"] = len(DYN_PAIRS + EXTRA_DYN + TYPED_PAIRS + EXTRA_TYPED)
    res.assumptions += ["destinations are compared through two 31-bit digests"]
