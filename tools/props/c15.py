"""C15 -- fit-into-destination crop is in bounds, keeps aspect, honours centering.

Spec: Geometry!Fit* (ideal rational definition; MC_FitCrop: all sizes <= NMAX; lemmas/FitLemmas: inside for all
sizes 1..65535). Conformance: CropBox::fit_src_into_dst_size on a boundary lattice^4, near-equal ratios and seeded
quadruples; the f64 results are logged exactly and judged by TLC with exact dyadic arithmetic; real resizes with
fit_into_destination on small sizes must succeed."""
import random, itertools
import vlib

CENT = [(-1, 2), (0, 1), (1, 4), (1, 2), (3, 4), (1, 1), (3, 2), (5, 16), (1, 1024), (1023, 1024)]


def fc(sw, sh, dw, dh, cx, cy):
    c = {"op": "fitcrop", "sw": sw, "sh": sh, "dw": dw, "dh": dh,
         "echo": {"sw": sw, "sh": sh, "dw": dw, "dh": dh}}
    if cx is None:
        c["c"] = None
        c["echo"]["cx"] = [1, 2]
        c["echo"]["cy"] = [1, 2]
    else:
        c["c"] = [{"n": cx[0], "q": cx[1]}, {"n": cy[0], "q": cy[1]}]
        c["echo"]["cx"] = list(cx)
        c["echo"]["cy"] = list(cy)
    return c


def gen(tier, rng):
    cases = []
    lat = [1, 2, 3, 255, 256, 257, 32767, 32768, 65534, 65535]
    quads = list(itertools.product(lat, repeat=4))
    if tier == "quick":
        rng.shuffle(quads)
        quads = quads[:4000]
    for i, (sw, sh, dw, dh) in enumerate(quads):
        cx = CENT[i % len(CENT)]
        cy = CENT[(i // 3) % len(CENT)]
        cases.append(fc(sw, sh, dw, dh, cx, cy) if i % 17 else fc(sw, sh, dw, dh, None, None))
    # near-equal ratios: sw*dh = sh*dw +- small
    n = 6000 if tier == "quick" else 60000
    for _ in range(n):
        sh = rng.randint(1, 65535)
        dh = rng.randint(1, 65535)
        k = rng.randint(1, 65535)
        # dw/dh ~ sw/sh : pick sw, then dw = round(sw*dh/sh) + delta
        sw = rng.randint(1, 65535)
        dw = (sw * dh + sh // 2) // sh + rng.choice([-1, 0, 0, 1])
        dw = min(max(dw, 1), 65535)
        cases.append(fc(sw, sh, dw, dh, rng.choice(CENT), rng.choice(CENT)))
    # exact equal ratios with common factors
    for _ in range(n // 6):
        a, b = rng.randint(1, 255), rng.randint(1, 255)
        m1, m2 = rng.randint(1, 255), rng.randint(1, 255)
        cases.append(fc(a * m1, b * m1, a * m2, b * m2, rng.choice(CENT), rng.choice(CENT)))
    # seeded uniform quadruples
    for _ in range(n):
        q = [rng.randint(1, 65535) if rng.random() < 0.7 else rng.randint(1, 300) for _ in range(4)]
        cases.append(fc(q[0], q[1], q[2], q[3], rng.choice(CENT), rng.choice(CENT)))
    # real resizes with the option (small sizes so that they are fast)
    m = 1500 if tier == "quick" else 10000
    for i in range(m):
        sw, sh, dw, dh = [rng.randint(1, 40) for _ in range(4)]
        cx, cy = rng.choice(CENT), rng.choice(CENT)
        alg = rng.choice([("nearest", None), ("conv", "Bilinear"), ("conv", "Lanczos3"), ("ss", "Box")])
        use_default = i % 5 == 0         # fit_into_destination(None): documented default centering (0.5, 0.5)
        if use_default:
            cx, cy = (1, 2), (1, 2)
        opt = {"alg": alg[0], "fit": None if use_default else [{"n": cx[0], "q": cx[1]}, {"n": cy[0], "q": cy[1]}]}
        if alg[1]:
            opt["filter"] = alg[1]
        pt = rng.choice(["U8", "U8x4", "U16x3", "F32"])
        cases.append({"op": "resize", "cpu": rng.choice(["none", "sse4", "avx2"]),
                      "src": {"pt": pt, "w": sw, "h": sh, "c": {"g": "rand", "seed": i}},
                      "dst": {"pt": pt, "w": dw, "h": dh}, "opt": opt, "log": ["hooks"],
                      "echo": {"sw": sw, "sh": sh, "dw": dw, "dh": dh, "cx": list(cx), "cy": list(cy)}})
    return cases


def run(res, tier, seed):
    rng = random.Random(seed)
    r = vlib.run_tlc_mc("MC_FitCrop", workers=8)
    res.add_mc(r, "ideal fit-crop: inside, aspect, full in one dimension, centering; all sizes <= 9, 6x6 centerings")
    if not r["ok"]:
        res.violation(what="MC_FitCrop invariant violated", detail=r["error"])
    a = vlib.run_apalache("FitLemmas", "Inside")
    res.add_lemma(a, "NoError", "ideal fit-crop lies inside the source for all sizes 1..65535 and all centerings in [0,1]")
    if a["result"] != "NoError":
        raise vlib.ToolError("lemma FitLemmas!Inside: %s" % a["result"])
    t = vlib.run_tlapm("FitProof")
    res.add_lemma(t, "Proved", "TLAPS: the ideal fit-crop lies inside the source for ALL natural sizes and centerings in [0,1]")
    if t["result"] != "Proved":
        raise vlib.ToolError("TLAPS proof FitProof: %s" % t["result"])
    cases = gen(tier, rng)
    for i, c in enumerate(cases):
        c["id"] = i
    binary = vlib.build_harness("release")
    wd = vlib.workdir("c15")
    recs, tpath = vlib.run_harness(binary, cases, wd)
    # the crop box a resize with fit_into_destination really used (hook crop_box, exact f64 values) is judged like a direct call
    import json
    extra = []
    for c, r in zip(cases, recs):
        if c["op"] == "resize":
            boxes = [h["d"] for h in r.get("hooks", []) if h["k"] == "crop_box"]
            r.pop("hooks", None)
            if boxes:
                extra.append({"id": c["id"], "op": "fitcrop", "ret": "ok", "box": boxes[0], "echo": c["echo"]})
    with open(tpath, "w") as f:
        for r in recs + extra:
            f.write(json.dumps(r, separators=(",", ":")) + "\n")
    tr = vlib.run_tlc_trace("TraceC15", tpath)
    res.add_trace(tr, len(cases), "TraceC15")
    rec = {r_["id"]: r_ for r_ in recs}
    for (cid, reason) in tr["bad"]:
        c = cases[cid]
        res.violation(what="C15 " + reason, reason=reason, op=c["op"], ret=rec[cid].get("ret"),
                      case={k: c[k] for k in c if k != "echo"}, box=rec[cid].get("box"))
    # which cropping is in force after any sequence of builder calls (Options.tla, spec -> implementation)
    import options
    options.run(res, tier, seed, "C15")
    res.samples = [{k: c[k] for k in c if k != "echo"} for c in (cases[0], cases[len(cases) // 2], cases[-1])]
    res.cov["cases"] = len(cases)
    res.assumptions += ["centerings are dyadic rationals (exact in f64); NaN centering excluded by the property"]
