"""C16 -- colour-space mappers are monotone, fix the end points and keep alpha.

Spec: Convert.tla table predicates and TraceConvert's transfer-function band (exact integer powers through Wide:
|M f(v/N) - y| <= 1/2 + 1/16 for the documented sRGB and gamma-2.2 functions), alpha lane = plain depth conversion.
Conformance: the 16 complete tables are recorded through forward_map / backward_map on ramps; multi-component rows of widths
1..9 (alpha at every row position, in-place and two-image, cropped views); 8->16->8 round trips; rejected combinations."""
import random, json, os
import vlib, rz

DEPTH = {"u8": ("U8", 255), "u16": ("U16", 65535)}
MULTI = {2: ("U8x2", "U16x2"), 3: ("U8x3", "U16x3"), 4: ("U8x4", "U16x4")}


def map_case(op, spt, dpt, w, h, data, mapper, direction, echo, dst_lay=None, src_lay=None, log=("src", "dst")):
    c = rz.img_case(op, dpt, w, h, src_pt=spt, src_c={"g": "data", "v": data}, dst_c={"g": "data", "v": data} if op.endswith("_inplace") else None,
                    log=log, chk=(), mapper=mapper, direction=direction, dst_lay=dst_lay, src_lay=src_lay)
    c["echo"] = echo
    return c


def gen(tier, rng):
    cases = []
    nband = 96 if tier == "quick" else 4096
    for mapper in ("srgb", "gamma"):
        for direction in ("f", "b"):
            for frm in ("u8", "u16"):
                for to in ("u8", "u16"):
                    spt, N = DEPTH[frm]
                    dpt, M = DEPTH[to]
                    xs = list(range(N + 1))
                    base = {"from": frm, "to": to, "mapper": mapper, "dir": direction, "N": N, "M": M}
                    cases.append(map_case("map", spt, dpt, len(xs), 1, xs, mapper, direction,
                                          dict(base, kind="table", lo=0, hi=N, loTo=0, hiTo=M, settab=1)))
                    # the documented transfer function, on all 256 entries or a seeded sample of the 65536
                    if N == 255 and (tier != "quick" or to == "u8"):
                        sample = xs
                    else:
                        sample = sorted(set([0, 1, 2, N - 1, N, N // 2] + [rng.randint(0, N) for _ in range(nband)]))
                    cases.append(map_case("map", spt, dpt, len(sample), 1, sample, mapper, direction, dict(base, kind="band")))
                    # multi-component rows: colour lanes through the table, alpha lane depth-converted
                    for nc in (2, 3, 4):
                        mspt = MULTI[nc][0 if frm == "u8" else 1]
                        mdpt = MULTI[nc][0 if to == "u8" else 1]
                        for w in ((1, 2, 3, 4, 5, 8, 9) if tier == "quick" else range(1, 10)):
                            h = 3
                            data = [rng.choice([0, N, rng.randint(0, N)]) for _ in range(w * h * nc)]
                            lay = [(None, None), ({"k": "crop_ref", "pad": [1, 0, 2, 1]}, {"k": "crop_mut", "pad": [0, 1, 1, 0]})][w % 2]
                            cases.append(map_case("map", mspt, mdpt, w, h, data, mapper, direction, dict(base, kind="alpha", nc=nc),
                                                  src_lay=lay[0], dst_lay=lay[1]))
                            if frm == to:
                                cases.append(map_case("map_inplace", mspt, mdpt, w, h, data, mapper, direction, dict(base, kind="alpha", nc=nc),
                                                      dst_lay=lay[1]))
                            # flat / structured rows (a shortcut keyed on the values must still treat alpha as alpha): every
                            # component of the row equal; grey pixels with another alpha; runs of zero / maximum pixels
                            v, a2 = rng.randint(1, N - 1), rng.randint(1, N - 1)
                            flat = [v] * (w * nc)
                            grey = []
                            for _ in range(w):
                                gv = rng.randint(0, N)
                                grey += [gv] * (nc - 1) + [a2] if nc in (2, 4) else [gv] * nc
                            runs = []
                            for _ in range(w):
                                runs += rng.choice([[0] * nc, [N] * nc, [rng.randint(0, N)] * nc])
                            data2 = flat + grey + runs
                            cases.append(map_case("map", mspt, mdpt, w, h, data2, mapper, direction, dict(base, kind="alpha", nc=nc),
                                                  src_lay=lay[0], dst_lay=lay[1]))
                            if frm == to:
                                cases.append(map_case("map_inplace", mspt, mdpt, w, h, data2, mapper, direction, dict(base, kind="alpha", nc=nc),
                                                      dst_lay=lay[1]))
                    if frm == to:
                        cases.append(map_case("map_inplace", spt, dpt, len(sample), 1, sample, mapper, direction, dict(base, kind="alpha", nc=1)))
    # rejected combinations
    for (spt, dpt, sw, sh, dw, dh, exp) in (("U8", "U8", 3, 3, 2, 3, "err:DifferentDimensions"), ("U8x3", "U16x3", 3, 3, 3, 4, "err:DifferentDimensions"),
                                            ("U8", "U8x3", 3, 3, 3, 3, "err:UnsupportedCombinationOfImageTypes"),
                                            ("U8x2", "U16x4", 2, 2, 2, 2, "err:UnsupportedCombinationOfImageTypes"),
                                            ("F32", "F32", 2, 2, 2, 2, "err:UnsupportedCombinationOfImageTypes"),
                                            ("I32", "U8", 2, 2, 2, 2, "err:UnsupportedCombinationOfImageTypes"),
                                            ("U8x4", "F32x4", 2, 2, 2, 2, "err:UnsupportedCombinationOfImageTypes")):
        for direction in ("f", "b"):
            c = rz.img_case("map", dpt, dw, dh, src_pt=spt, sw=sw, sh=sh, src_c={"g": "rand", "seed": 3, "flo": 0.0, "fhi": 1.0},
                            dst_c={"g": "rand", "seed": 9, "flo": 0.0, "fhi": 1.0}, log=("dst", "dst0"), chk=(), mapper="srgb", direction=direction)
            c["echo"] = {"kind": "reject", "expect": exp}
            cases.append(c)
    return cases


def run(res, tier, seed):
    rng = random.Random(seed)
    r = vlib.run_tlc_mc("MC_Convert", workers=4)
    res.add_mc(r, "documented depth conversions (used for the alpha lane): monotone / end points / round trip for all 65,536 values")
    if not r["ok"]:
        res.violation(what="MC_Convert invariant violated", detail=r["error"])
    binary = vlib.build_harness("release")
    wd = vlib.workdir("c16")
    cases = gen(tier, rng)
    # 8 -> 16 -> 8 round trips (forward then backward, and backward then forward)
    legs = []
    # "converting 8-bit sRGB to 16-bit linear and back reproduces every 8-bit value"
    for mapper in ("srgb",):
        for (d1, d2) in (("f", "b"),):
            for (spt, mpt) in (("U8", "U16"), ("U8x3", "U16x3"), ("U8x4", "U16x4")):
                nc = rz.PT[spt]["nc"]
                xs = list(range(256))
                while len(xs) % nc:
                    xs.append(255)
                c = map_case("map", spt, mpt, len(xs) // nc, 1, xs, mapper, d1, {"kind": "leg"})
                legs.append((mapper, d2, spt, mpt, xs, c))
    all1 = cases + [l[5] for l in legs]
    for i, c in enumerate(all1):
        c["id"] = i
    recs1, _ = vlib.run_harness(binary, [rz.strip(c) for c in all1], wd, name="p1")
    cases2 = []
    for (mapper, d2, spt, mpt, xs, c) in legs:
        r = recs1[c["id"]]
        if r.get("ret") != "ok":
            continue
        nc = rz.PT[spt]["nc"]
        c2 = map_case("map", mpt, spt, len(xs) // nc, 1, r["dst"], mapper, d2, {"kind": "roundtrip", "orig": xs, "via": mpt, "pt": spt, "mapper": mapper, "second": d2},
                      log=("dst",))
        cases2.append(c2)
    for i, c in enumerate(cases2):
        c["id"] = len(all1) + i
    recs2, _ = vlib.run_harness(binary, [rz.strip(c) for c in cases2], wd, name="p2")
    tpath = os.path.join(wd, "c16.trace.ndjson")
    judged = []
    with open(tpath, "w") as f:
        for c, r in list(zip(cases, recs1[:len(cases)])) + list(zip(cases2, recs2)):
            r = dict(r)
            r["echo"] = c["echo"]
            for k in ("outd0", "outd1", "srcd0", "srcd1", "outn"):
                r.pop(k, None)
            f.write(json.dumps(r, separators=(",", ":")) + "\n")
            judged.append((c, r))
    tr = vlib.run_tlc_trace("TraceConvert", tpath, xmx="12g")
    res.add_trace(tr, len(judged), "TraceConvert(C16)")
    by_id = {c["id"]: (c, r) for c, r in judged}
    for (cid, reason) in tr["bad"]:
        c, r = by_id[cid]
        e = c["echo"]
        res.violation(what="C16 " + reason, reason=reason, kind=e["kind"], mapper=e.get("mapper"), direction=e.get("dir", e.get("second")),
                      frm=e.get("from"), to=e.get("to"), nc=e.get("nc"), ret=r.get("ret"), op=c["op"], pt=c["dst"]["pt"], via=e.get("via"))
    res.samples = [dict((k, v) for k, v in c["echo"].items() if k != "orig") for c, r in judged[:4]]
    res.cov["cases"] = len(judged)
    res.cov["tables"] = 16
    res.states = max(res.states, 1)
    res.assumptions += ["transfer functions are judged within a band of 1/2 + 1/16 unit (exact rounding of f32 powf is not modelled)",
                        "65,536-entry tables: monotone/end points on every entry, the transfer-function band on a seeded sample"]
