#!/bin/sh
# seedsweep.sh <seed>...: every quick check with other seeds (false-alarm hunting); evidence / replay go to scratch directories
cd /verif
mkdir -p .work
for seed in "$@"; do
  for p in C04 C14 C15 C06 C05 C07 C09 C11 C12 C13 C16 C17 C02 C08 C10 C18 C01 C03; do
    s=$(date +%s)
    VERIF_EVIDENCE=/var/tmp/sweep_ev VERIF_REPLAY=/var/tmp/sweep_rp ./check $p --tier quick --seed $seed > .work/sweep_${p}_$seed.out 2> .work/sweep_${p}_$seed.err
    rc=$?
    e=$(date +%s)
    echo "seed=$seed $p rc=$rc $((e-s))s $(grep VIOLATION .work/sweep_${p}_$seed.out | head -1)"
  done
done
