----------------------------- MODULE MC_Geometry -----------------------------
(* Exhaustive small-scope check of the one-axis geometry: for every source extent up to NMAX,
   every valid crop on the quarter-pixel grid, every destination extent up to NMAX, every
   support in {1/2, 1, 2, 3}, adaptive or not, and every destination sample:
     - the nearest-neighbour candidates are a non-empty set of indices inside the source;
     - the convolution window is non-empty, inside the source, contains the pixel under the
       centre, and consecutive windows move monotonically;
     - the logged window size bounds every window;
     - a pass is needed unless the crop is integer-aligned and of the destination's extent. *)
EXTENDS Geometry, TLC
CONSTANT NMAX
QQ == 4
VARIABLES inSize, a, wq, n, sup, adaptive
vars == <<inSize, a, wq, n, sup, adaptive>>
Init == /\ inSize \in 1 .. NMAX /\ n \in 1 .. NMAX
        /\ a \in 0 .. QQ * NMAX /\ wq \in 1 .. QQ * NMAX
        /\ a + wq <= QQ * inSize
        /\ sup \in {<<1, 2>>, <<1, 1>>, <<2, 1>>, <<3, 1>>}
        /\ adaptive \in BOOLEAN
Next == UNCHANGED vars

Lo(i) == WinLo(inSize, a, wq, QQ, n, sup[1], sup[2], adaptive, i)
Hi(i) == WinHi(inSize, a, wq, QQ, n, sup[1], sup[2], adaptive, i)
Inv ==
    \A i \in 0 .. n - 1 :
      LET ns == NearestSet(inSize, a, wq, QQ, n, i)
          cp == CenPix(inSize, a, wq, QQ, n, i)
      IN  /\ ns # {} /\ ns \subseteq 0 .. inSize - 1 /\ Cardinality(ns) <= 2
          /\ cp \in ns
          /\ 0 <= Lo(i) /\ Lo(i) < Hi(i) /\ Hi(i) <= inSize
          /\ Lo(i) <= cp /\ cp < Hi(i)
          /\ Hi(i) - Lo(i) <= WindowSize(wq, QQ, n, sup[1], sup[2], adaptive)
          /\ WindowOK(inSize, a, wq, QQ, n, sup[1], sup[2], adaptive, i, Lo(i), Hi(i) - Lo(i))
          /\ (i + 1 < n => Lo(i) <= Lo(i + 1) /\ Hi(i) <= Hi(i + 1))
          \* the centre moves forward by exactly one scale step
          /\ (i + 1 < n => CenN(a, wq, n, i + 1) - CenN(a, wq, n, i) = 2 * wq)
PassInv == NeedPass(a, wq, QQ, n) = ~(wq = n * QQ /\ a % QQ = 0)
=============================================================================
