CONSTANTS WMAX = 3
  HMAX = 4
  TMAX = 3
SPECIFICATION Spec
INVARIANT Inv
PROPERTY Terminates
CHECK_DEADLOCK FALSE
