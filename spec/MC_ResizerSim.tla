---------------------------- MODULE MC_ResizerSim ----------------------------
(* Behaviours of the Resizer specification for replay into the implementation (spec -> implementation direction):
   TLC in simulation mode walks random behaviours of MC_Resizer (full call alphabet, NCALLS calls with resets in
   between); the history of calls of each behaviour is printed as JSON and the driver executes it on one long-lived
   Resizer (and every call on a fresh one). *)
EXTENDS MC_Resizer, Json

VARIABLE hist
simvars == <<st, ncalls, hist>>

SimInit == MCInit /\ hist = << >>
SimNext ==
    \/ /\ ncalls < NCALLS /\ st.pc = "idle"
       /\ \E args \in Calls : st' = Upd(st, [k |-> "call", args |-> args]) /\ hist' = Append(hist, args)
       /\ ncalls' = ncalls + 1
    \/ /\ \E e \in Events(st) : Ok(st, e) /\ st' = Upd(st, e)
       /\ UNCHANGED <<ncalls, hist>>
    \/ /\ st.pc = "idle" /\ ncalls > 0 /\ ncalls < NCALLS /\ hist[Len(hist)].kind # "reset"
       /\ st' = ResetBufs(st) /\ hist' = Append(hist, [kind |-> "reset"])
       /\ UNCHANGED ncalls

\* printed when a behaviour has made all its calls and the last one has returned
Emit == (ncalls = NCALLS /\ st.pc = "idle") => PrintT(<<"HIST", ToJson(hist)>>)
=============================================================================
