---------------------------- MODULE TraceOptions ----------------------------
(***************************************************************************)
(* Trace validation of the option builder.  One line per executed resize:  *)
(*   steps  the builder calls that produced the options (a behaviour       *)
(*          printed by MC_Options, or a seeded sequence); none = 1: the    *)
(*          call passed `None`                                             *)
(*   box    crop box in force (hook crop_box, exact f64 as dyadics)        *)
(*   disp   <<algorithm code, alpha flag>> of hook dispatch (<< >> when    *)
(*          the call ended before the dispatch: zero size, copy fast path) *)
(*   adapt  adaptive-kernel flags of the conv_begin hooks                  *)
(* The judgement folds the same steps with Options!Apply and compares.     *)
(***************************************************************************)
EXTENDS FitJudge, Options, TLC, Json, IOUtils

Rec == ndJsonDeserialize(IOEnv.TRACE)
VARIABLES l, nbad
vars == <<l, nbad>>

Quarter(n) == DyScale2(DyFromInt(n), -2)

BoxJudge(e, o) ==
    LET fin == \A i \in 1 .. 4 : IsFinite(e.box[i])
    IN  IF ~fin THEN "box-non-finite"
        ELSE IF o.crop[1] = "none" THEN
             (IF /\ DyOf(e.box[1]).s = 0 /\ DyOf(e.box[2]).s = 0
                 /\ DyEq(DyOf(e.box[3]), DyFromInt(e.sw)) /\ DyEq(DyOf(e.box[4]), DyFromInt(e.sh))
              THEN "ok" ELSE "box-not-whole-source")
        ELSE IF o.crop[1] = "crop" THEN
             (IF \A i \in 1 .. 4 : DyEq(DyOf(e.box[i]), Quarter(o.crop[2][i])) THEN "ok" ELSE "box-not-the-crop-last-set")
        ELSE LET r == FitJudge([echo |-> [sw |-> e.sw, sh |-> e.sh, dw |-> e.dw, dh |-> e.dh, cx |-> o.crop[2], cy |-> o.crop[3]],
                                box |-> e.box, ret |-> "ok"])
             IN  IF r = "ok" THEN "ok" ELSE "fit-" \o r

Judge(e) ==
    LET o == IF e.none = 1 THEN Default ELSE Fold(e.steps)
    IN  IF e.ret # "ok" THEN "call-failed"
        ELSE IF Len(e.box) # 4 THEN "no-crop-box-event"
        ELSE IF BoxJudge(e, o) # "ok" THEN BoxJudge(e, o)
        ELSE IF Len(e.disp) = 2 /\ e.disp[1] # AlgCode(o.alg) THEN "algorithm-not-the-last-set"
        ELSE IF Len(e.disp) = 2 /\ e.disp[2] # (IF o.alpha THEN 1 ELSE 0) THEN "alpha-flag-not-the-last-set"
        ELSE IF \E i \in 1 .. Len(e.adapt) : e.adapt[i] # (IF o.alg.a = "interp" THEN 0 ELSE 1) THEN "kernel-size-mode"
        ELSE IF o.alg.a = "nearest" /\ Len(e.adapt) > 0 THEN "nearest-ran-a-convolution"
        ELSE "ok"

Init == l = 1 /\ nbad = 0
Step == /\ l <= Len(Rec)
        /\ LET e == Rec[l]
               r == Judge(e)
           IN  IF r = "ok" THEN nbad' = nbad
               ELSE PrintT(<<"BAD", e.id, r>>) /\ nbad' = nbad + 1
        /\ l' = l + 1
Finish == /\ l = Len(Rec) + 1
          /\ PrintT(<<"DONE", Len(Rec), nbad>>)
          /\ l' = l + 1
          /\ UNCHANGED nbad
Next == Step \/ Finish
=============================================================================
