------------------------------- MODULE TraceApi -------------------------------
(* Trace validation of the entry-point decision tables (Api.tla): every recorded call over all pairs of pixel types,
   with equal and with different sizes, must answer an admissible result; a rejected call leaves the destination untouched
   and the bytes around it unchanged. *)
EXTENDS Api, TLC, Json, IOUtils
ASSUME TablesOK

Rec == ndJsonDeserialize(IOEnv.TRACE)
VARIABLES l, nbad
vars == <<l, nbad>>

Judge(e) ==
    LET c == e.echo
        ans == Answers(c.op, c.src, c.dst, c.same = 1)
    IN  IF c.op = "container" THEN ContainerVerdict(e)
        ELSE IF c.op = "filter_new" THEN (IF e.ret = FilterNewAnswer(c.class) THEN "ok" ELSE "filter-new-decision")
        ELSE IF e.ret \notin ans THEN "decision"
        ELSE IF e.ret # "ok" /\ e.dst # e.dst0 THEN "rejected-but-destination-touched"
        ELSE IF e.outd0 # e.outd1 THEN "wrote-outside-destination"
        ELSE "ok"

Init == l = 1 /\ nbad = 0
Step == /\ l <= Len(Rec)
        /\ LET e == Rec[l]
               r == Judge(e)
           IN  IF r = "ok" THEN nbad' = nbad
               ELSE PrintT(<<"BAD", e.id, r>>) /\ nbad' = nbad + 1
        /\ l' = l + 1
Finish == /\ l = Len(Rec) + 1
          /\ PrintT(<<"DONE", Len(Rec), nbad>>)
          /\ l' = l + 1
          /\ UNCHANGED nbad
Next == Step \/ Finish
=============================================================================
