-------------------------------- MODULE Views --------------------------------
(***************************************************************************)
(* Image views as rectangles of a tagged parent grid, and the splitting of *)
(* a view into bands (split_by_height / split_by_width and their mutable   *)
(* variants).  A view is [l, t, w, h] in parent coordinates; the tag of    *)
(* parent cell (x, y) is y*256 + x.                                        *)
(***************************************************************************)
EXTENDS Geometry

View(l, t, w, h) == [l |-> l, t |-> t, w |-> w, h |-> h]
Rows(v) == ViewRows(v.l, v.t, v.w, v.h)
Cells(v) == {<<x, y>> : x \in v.l .. v.l + v.w - 1, y \in v.t .. v.t + v.h - 1}
Extent(v, axis) == IF axis = "h" THEN v.h ELSE v.w

\* split arguments: [axis, start, size, parts] with size >= 1 and parts >= 1 (NonZeroU32 in the API)
SplitDefined(v, a) == a.parts <= a.size /\ a.start + a.size <= Extent(v, a.axis)

\* band i (1-based) of `size` cut into `parts`: the first size % parts bands are one longer
BandLen(size, parts, i) == size \div parts + (IF i <= size % parts THEN 1 ELSE 0)
BandOff(size, parts, i) == (i - 1) * (size \div parts) + MinI(i - 1, size % parts)

Part(v, a, i) ==
    IF a.axis = "h"
    THEN View(v.l, v.t + a.start + BandOff(a.size, a.parts, i), v.w, BandLen(a.size, a.parts, i))
    ELSE View(v.l + a.start + BandOff(a.size, a.parts, i), v.t, BandLen(a.size, a.parts, i), v.h)

\* the empty sequence (None) or the ordered sequence of sub-views
Split(v, a) == IF SplitDefined(v, a) THEN [i \in 1 .. a.parts |-> Part(v, a, i)] ELSE << >>

\* the requested band as a view
Band(v, a) == IF a.axis = "h" THEN View(v.l, v.t + a.start, v.w, a.size)
                              ELSE View(v.l + a.start, v.t, a.size, v.h)

(***************************************************************************)
(* Properties of Split (checked exhaustively at small scope in MC_Views).  *)
(***************************************************************************)
SplitTiles(v, a) ==
    SplitDefined(v, a) =>
      LET ps == Split(v, a)
      IN  /\ Len(ps) = a.parts
          \* every part non-empty along the axis, sizes differ by at most one, in order
          /\ \A i \in 1 .. a.parts : Extent(ps[i], a.axis) >= 1
          /\ \A i, j \in 1 .. a.parts : Abs(Extent(ps[i], a.axis) - Extent(ps[j], a.axis)) <= 1
          /\ \A i \in 1 .. a.parts - 1 :
                IF a.axis = "h" THEN ps[i].t + ps[i].h = ps[i + 1].t ELSE ps[i].l + ps[i].w = ps[i + 1].l
          \* pairwise disjoint, union = the band, inside the view
          /\ \A i, j \in 1 .. a.parts : i # j => Cells(ps[i]) \cap Cells(ps[j]) = {}
          /\ UNION {Cells(ps[i]) : i \in 1 .. a.parts} = Cells(Band(v, a))
          /\ Cells(Band(v, a)) \subseteq Cells(v)

(***************************************************************************)
(* The row iterators of the view traits -- the only access path the        *)
(* kernels use (C13).  Row i (0-based) of a view is the tag row            *)
(* (t+i)*256 + l .. l+w-1 of the parent.                                   *)
(***************************************************************************)
Row(v, i) == [x \in 1 .. v.w |-> (v.t + i) * 256 + (v.l + x - 1)]
\* iter_rows(start): rows start .. h-1 (nothing if start >= h)
RowsFrom(v, start) == [k \in 1 .. MaxI(0, v.h - start) |-> Row(v, start + k - 1)]
\* iter_N_rows(start, max): complete groups of n consecutive rows out of the first `max` rows from `start`
RowGroups(v, start, max, n) ==
    LET avail == MaxI(0, MinI(v.h - start, max))
    IN  [g \in 1 .. avail \div n |-> [j \in 1 .. n |-> Row(v, start + (g - 1) * n + j - 1)]]
\* iter_rows_with_step(y0, step, max): rows floor(y0 + k*step), k = 0 .. steps-1,
\* steps = min(max, ceil((h - y0) / step));  y0 = y0n/q >= 0, step = stepn/q > 0
RowsStep(v, y0n, stepn, q, max) ==
    LET steps == IF v.h * q <= y0n THEN 0 ELSE MinI(max, CeilDiv(v.h * q - y0n, stepn))
    IN  [k \in 1 .. steps |-> Row(v, (y0n + (k - 1) * stepn) \div q)]

=============================================================================
