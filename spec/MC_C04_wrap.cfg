INIT Init
NEXT Next
INVARIANT WrapInv
CHECK_DEADLOCK FALSE
