CONSTANT LMAX = 70
SPECIFICATION Spec
INVARIANT Inv
PROPERTY Terminates
CHECK_DEADLOCK FALSE
