------------------------------- MODULE MC_C04 -------------------------------
(***************************************************************************)
(* Small-scope exhaustive check of the C04 decision tables.                *)
(*  - u32 is modelled by arithmetic modulo M (M = 8): the decision computed *)
(*    with overflow-free comparisons equals the definition over unbounded  *)
(*    integers, for every parent and every box;                            *)
(*  - the decision tables are total and unambiguous: a box that is inside  *)
(*    admits no error variant, a box that is not inside admits at least    *)
(*    one (so every call has a documented answer);                         *)
(*  - an accepted view exposes rows of exactly its width, all tags taken   *)
(*    from inside the parent, no tag twice.                                *)
(* The wrapping formulation (what `left + width` computes in u32) is kept  *)
(* as WrapAccepts; MC_C04_wrap.cfg asks TLC for the counter-example.       *)
(***************************************************************************)
EXTENDS Geometry, TLC

M == 8
Vals == 0 .. M - 1
QQ == 2
CVals == [t : {"q"}, n : -2 .. 9, q : {QQ}] \cup [t : {"nan", "inf", "-inf", "-0", "denorm", "-denorm"}]

VARIABLES mode, W, H, l, t, w, h, b
vars == <<mode, W, H, l, t, w, h, b>>

Init == \/ /\ mode = "view"
           /\ W \in 0 .. 4 /\ H \in 0 .. 3
           /\ l \in Vals /\ t \in Vals /\ w \in Vals /\ h \in Vals
           /\ b = << >>
        \/ /\ mode = "crop"
           /\ W \in 1 .. 3 /\ H \in 1 .. 2
           /\ l = 0 /\ t = 0 /\ w = 0 /\ h = 0
           /\ b \in [1 .. 4 -> CVals]
Next == UNCHANGED vars

Wd(x) == FromInt(x)
Results == {"ok", "err:PositionIsOutOfImageBoundaries", "err:SizeIsOutOfImageBoundaries"}

\* definition over unbounded integers
Def == l + w <= W /\ t + h <= H
\* overflow-free formulation (what a correct u32 implementation can compute)
Checked == w <= W /\ l <= W - w /\ h <= H /\ t <= H - h
\* the u32 formulation with a wrapping sum
WrapAccepts == ~(l >= W \/ t >= H) /\ ~((l + w) % M > W \/ (t + h) % M > H)

ViewInv ==
    mode = "view" =>
      /\ Def = Checked
      /\ Def = ViewInside(Wd(W), Wd(H), Wd(l), Wd(t), Wd(w), Wd(h))
      \* totality: some answer is admissible; unambiguity: non-empty boxes have one verdict
      /\ \E r \in Results : ViewDecisionOK(Wd(W), Wd(H), Wd(l), Wd(t), Wd(w), Wd(h), r)
      /\ (w > 0 /\ h > 0) =>
           (ViewDecisionOK(Wd(W), Wd(H), Wd(l), Wd(t), Wd(w), Wd(h), "ok")
             = ~(\E r \in Results \ {"ok"} : ViewDecisionOK(Wd(W), Wd(H), Wd(l), Wd(t), Wd(w), Wd(h), r)))
      \* exposure of an accepted view
      /\ Def =>
           LET rows == ViewRows(l, t, w, h)
           IN  /\ Len(rows) = h
               /\ \A y \in 1 .. h : Len(rows[y]) = w
               /\ \A y \in 1 .. h : \A x \in 1 .. w :
                     /\ rows[y][x] % 256 < W /\ rows[y][x] \div 256 < H
                     /\ \A y2 \in 1 .. h : \A x2 \in 1 .. w :
                           (rows[y][x] = rows[y2][x2]) => (x = x2 /\ y = y2)

WrapInv == mode = "view" /\ w > 0 /\ h > 0 => (WrapAccepts => Def)

CropResults == {"ok", CropErr("WidthOrHeightLessThanZero"), CropErr("PositionIsOutOfImageBoundaries"),
                CropErr("SizeIsOutOfImageBoundaries")}
CropInv ==
    mode = "crop" =>
      /\ \E r \in CropResults : CropDecisionOK(b, W, H, QQ, FALSE, r)
      /\ (~CropZeroArea(b)) =>
           (CropDecisionOK(b, W, H, QQ, FALSE, "ok")
             = ~(\E r \in CropResults \ {"ok"} : CropDecisionOK(b, W, H, QQ, FALSE, r)))
      \* accepted => finite, non-negative, inside (the statement of C04, read back from the table)
      /\ (~CropZeroArea(b) /\ CropDecisionOK(b, W, H, QQ, FALSE, "ok")) =>
           /\ CropAllFinite(b)
           /\ ~CLess0(b[1]) /\ ~CLess0(b[2]) /\ ~CLess0(b[3]) /\ ~CLess0(b[4])
           /\ CNum(b[1]) + CNum(b[3]) <= W * QQ /\ CNum(b[2]) + CNum(b[4]) <= H * QQ
      \* an empty destination is always the documented no-op
      /\ CropDecisionOK(b, W, H, QQ, TRUE, "ok")
=============================================================================
