-------------------------------- MODULE Alpha --------------------------------
(***************************************************************************)
(* Alpha premultiplication and its inverse.                                *)
(*  - the property (C06): Mul = round(c*a/max) exactly; Div in             *)
(*    {floor, ceil}(c*max/a) saturated at max, a = 0 => 0;                 *)
(*  - the algorithms the portable code uses (Mul8Alg, Div8Alg and the      *)
(*    16-bit analogues with 33 fractional bits), so that the design-level  *)
(*    claim "the algorithm meets the property" can be model-checked        *)
(*    (MC_Alpha: all 65536 8-bit pairs; lemmas/AlphaLemmas: all 2^32       *)
(*    16-bit pairs).                                                       *)
(* 8-bit operators use native integers, 16-bit ones Wide.                  *)
(***************************************************************************)
EXTENDS Geometry

\* ---- property, 8 bit (everything below 2^31)
MulExact(c, a, max) == (2 * c * a + max) \div (2 * max)          \* round(c*a/max); max odd => no ties
DivFloor(c, a, max) == (c * max) \div a
DivAllowed(c, a, max) ==
    IF a = 0 THEN {0}
    ELSE LET f == DivFloor(c, a, max)
             cl == IF (c * max) % a = 0 THEN f ELSE f + 1
         IN  {MinI(f, max), MinI(cl, max)}

\* ---- algorithms, 8 bit
Mul8Alg(c, a) == LET t == c * a + 128 IN ((t \div 256) + t) \div 256
Recip8(a) == IF a = 0 THEN 0 ELSE ((255 * 512) \div a + 1) \div 2
Div8Alg(c, a) == MinI((c * Recip8(a) + 128) \div 256, 255)

\* ---- property, 16 bit (Wide); c, a native integers < 65536, result a native integer
W16(x) == FromInt(x)
Mul16Exact(c, a) ==        \* round(c*a/65535) = floor((2ca + 65535) / 131070); 131070 = 2 * 65535
    ToInt(DivSmall(DivSmall(Add(MulSmall(MulSmall(W16(c), a), 2), W16(65535)), 2), 65535))
\* floor(c*65535/a) and exactness
Div16Floor(c, a) == DivSmall(MulSmall(W16(c), 65535), a)
Div16IsExact(c, a) == ModSmall(MulSmall(W16(c), 65535), a) = 0
Div16Allowed(c, a) ==
    IF a = 0 THEN {0}
    ELSE LET f == Div16Floor(c, a)
             fi == IF Lt(f, W16(65535)) THEN ToInt(f) ELSE 65535
         IN  IF fi = 65535 \/ Div16IsExact(c, a) THEN {fi} ELSE {fi, fi + 1}

\* ---- algorithms, 16 bit
Mul16Alg(c, a) ==          \* tmp = c*a + 0x8000 ; ((tmp >> 16) + tmp) >> 16   (u32 arithmetic, no overflow: c*a + 0x8000 < 2^32)
    LET t == Add(MulSmall(W16(c), a), W16(32768))
    IN  ToInt(Shr(Add(Shr(t, 16), t), 16))

=============================================================================
