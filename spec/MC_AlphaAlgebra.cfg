CONSTANTS N = 3
  MAXV = 3
  DEN = 4
INIT Init
NEXT Next
INVARIANT Inv
CHECK_DEADLOCK FALSE
