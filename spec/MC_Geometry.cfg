CONSTANT NMAX = 6
INIT Init
NEXT Next
INVARIANT Inv
INVARIANT PassInv
CHECK_DEADLOCK FALSE
