CONSTANT NoPassCopies = TRUE
CONSTANT NCALLS = 1
CONSTANT SMALL = FALSE
INIT MCInit
NEXT MCNext
INVARIANT AtReturn
INVARIANT Progress
INVARIANT HeldOnlyInCall
PROPERTY BufMonotone
CHECK_DEADLOCK FALSE
