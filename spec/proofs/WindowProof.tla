----------------------------- MODULE WindowProof -----------------------------
(***************************************************************************)
(* TLAPS proof of lemmas/GeomLemmas!WindowInside for ALL natural sizes,    *)
(* every rational grid Q and every support sn/sd >= 1/2: the support       *)
(* window of sample i, clamped to the source, is non-empty, lies inside    *)
(* the source and contains the pixel under the sample centre.              *)
(*   centre  c = CenN / CenD,  radius r = Rad / D  with D = 2 CenD,        *)
(*   Lo = max(0, floor(c - r)),  Hi = min(inSize, ceil(c + r)),            *)
(*   CenPix = floor(c).                                                    *)
(* The arithmetic facts are stated over integers X (= 2 CenN), R (= Rad),  *)
(* D with R >= D / 2 (support >= 1/2 pixel) and 0 <= X < D * inSize        *)
(* (NearestProof!NearestInside gives the latter for crops inside).         *)
(***************************************************************************)
EXTENDS Integers, TLAPS

Floor(x, d) == x \div d
Ceil(x, d) == -((-x) \div d)
Max(x, y) == IF x > y THEN x ELSE y
Min(x, y) == IF x < y THEN x ELSE y

LEMMA DivFacts ==
    ASSUME NEW x \in Int, NEW d \in Nat, d >= 1
    PROVE  /\ x \div d \in Int
           /\ d * (x \div d) <= x
           /\ x < d * (x \div d) + d
  <1>1. d \in Nat \ {0}  OBVIOUS
  <1> DEFINE q == x \div d
  <1> DEFINE r == x % d
  <1> DEFINE t == d * q
  <1>2. x = t + r /\ r \in Int /\ r >= 0 /\ r <= d - 1 /\ q \in Int /\ t \in Int
    BY <1>1, Z3
  <1> HIDE DEF q, r, t
  <1>3. t <= x /\ x < t + d  BY <1>2
  <1> QED BY <1>2, <1>3 DEF q, t

LEMMA MulMonoInt ==
    ASSUME NEW d \in Nat, NEW a \in Int, NEW b \in Int, a <= b
    PROVE  d * a <= d * b
  <1>1. b = a + (b - a) /\ b - a \in Nat  OBVIOUS
  <1>2. d * (a + (b - a)) = d * a + d * (b - a)  BY Z3
  <1>3. d * (b - a) \in Nat /\ d * a \in Int  BY <1>1, Z3
  <1> QED BY <1>1, <1>2, <1>3

\* floor is monotone
LEMMA FloorMono ==
    ASSUME NEW x \in Int, NEW y \in Int, NEW d \in Nat, d >= 1, x <= y
    PROVE  Floor(x, d) <= Floor(y, d)
  <1> DEFINE p == x \div d
  <1> DEFINE q == y \div d
  <1>1. p \in Int /\ d * p <= x /\ x < d * p + d  BY DivFacts
  <1>2. q \in Int /\ d * q <= y /\ y < d * q + d  BY DivFacts
  <1>3. SUFFICES ASSUME p >= q + 1 PROVE FALSE  BY <1>1, <1>2 DEF Floor
  <1>4. d * (q + 1) <= d * p  BY <1>1, <1>2, <1>3, MulMonoInt
  <1>5. d * (q + 1) = d * q + d  BY <1>2, Z3
  <1> QED BY <1>1, <1>2, <1>4, <1>5

THEOREM WindowInside ==
    ASSUME NEW X \in Nat, NEW R \in Nat, NEW D \in Nat, NEW inSize \in Nat,
           D >= 2, 2 * R >= D,               \* support of at least half a pixel
           X < D * inSize                    \* the centre lies inside the source
    PROVE  LET Lo == Max(0, Floor(X - R, D))
               Hi == Min(inSize, Ceil(X + R, D))
               CenPix == Floor(X, D)
           IN  0 <= Lo /\ Lo < Hi /\ Hi <= inSize /\ Lo <= CenPix /\ CenPix < Hi
<1> DEFINE c == X \div D
<1> DEFINE lo == (X - R) \div D
<1> DEFINE m == (-(X + R)) \div D
<1>1. c \in Int /\ D * c <= X /\ X < D * c + D  BY DivFacts
<1>2. lo \in Int /\ D * lo <= X - R /\ X - R < D * lo + D  BY DivFacts
<1>3. m \in Int /\ D * m <= -(X + R) /\ -(X + R) < D * m + D  BY DivFacts
<1>4. c >= 0
  <2>1. SUFFICES ASSUME c <= -1 PROVE FALSE  BY <1>1
  <2>2. D * c <= D * (-1)  BY <1>1, <2>1, MulMonoInt
  <2> QED BY <1>1, <2>2
<1>5. c < inSize
  <2>1. SUFFICES ASSUME c >= inSize PROVE FALSE  BY <1>1
  <2>2. D * inSize <= D * c  BY <1>1, <2>1, MulMonoInt
  <2> QED BY <1>1, <2>2
<1>6. lo <= c
  <2>1. X - R <= X  OBVIOUS
  <2>2. X - R \in Int  OBVIOUS
  <2> QED BY <2>1, <2>2, FloorMono DEF Floor
\* ceil((X + R) / D) = -m  >  c   because  X + R >= D c + D/2  and  -m D >= X + R
<1>7. -m >= c + 1
  <2>1. SUFFICES ASSUME -m <= c PROVE FALSE  BY <1>1, <1>3
  <2>2. D * (-m) <= D * c  BY <1>1, <1>3, <2>1, MulMonoInt
  <2>3. D * (-m) = -(D * m)  BY <1>3, Z3
  <2>4. X + R < D * (-m) + D  BY <1>3, <2>3
  \* from <1>3: D m <= -(X+R)  =>  X + R <= -(D m) = D (-m) <= D c <= X : so R <= 0, but 2R >= D >= 2
  <2>5. X + R <= -(D * m)  BY <1>3
  <2> QED BY <1>1, <2>2, <2>3, <2>5
<1>8. Ceil(X + R, D) = -m  BY DEF Ceil
<1>9. Floor(X - R, D) = lo /\ Floor(X, D) = c  BY DEF Floor
<1> QED BY <1>1, <1>2, <1>3, <1>4, <1>5, <1>6, <1>7, <1>8, <1>9 DEF Max, Min
=============================================================================
