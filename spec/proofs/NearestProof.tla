---------------------------- MODULE NearestProof ----------------------------
(***************************************************************************)
(* TLAPS proof that the nearest-neighbour index of Geometry!NearestSet     *)
(* lies inside the source for ALL natural sizes and every rational grid Q  *)
(* (lemmas/GeomLemmas checks it with Apalache for sizes below 2^16 on the  *)
(* quarter-pixel grid):  one axis, source extent inSize, crop              *)
(* [a/Q, (a+wq)/Q) inside the source, n destination samples, sample i;     *)
(* centre = (2 n a + (2 i + 1) wq) / (2 Q n).                              *)
(***************************************************************************)
EXTENDS Integers, TLAPS

CenN(a, wq, n, i) == 2 * n * a + (2 * i + 1) * wq
CenD(Q, n) == 2 * Q * n

LEMMA MulMono ==
    ASSUME NEW u \in Nat, NEW v \in Nat, NEW w \in Nat, v >= w
    PROVE  u * v >= u * w
  <1>1. v = w + (v - w) /\ v - w \in Nat  OBVIOUS
  <1>2. u * (w + (v - w)) = u * w + u * (v - w)  BY Z3
  <1>3. u * (v - w) \in Nat /\ u * w \in Nat  BY <1>1, Z3
  <1> QED BY <1>1, <1>2, <1>3

LEMMA DivLess ==
    ASSUME NEW x \in Nat, NEW d \in Nat, NEW m \in Nat, d >= 1, x < d * m
    PROVE  x \div d \in Nat /\ x \div d < m
  <1>1. d \in Nat \ {0}  OBVIOUS
  <1>2. x = d * (x \div d) + (x % d) /\ x % d \in 0 .. d - 1 /\ x \div d \in Nat
    BY <1>1, Z3
  <1> DEFINE q == x \div d
  <1>3. d * q \in Nat /\ d * m \in Nat  BY <1>2, Z3
  <1>4. d * q <= x  BY <1>2, <1>3
  <1>5. d * q < d * m  BY <1>3, <1>4
  <1>6. q < m
    <2>1. SUFFICES ASSUME q >= m PROVE FALSE  BY <1>2
    <2>2. d * q >= d * m  BY <2>1, <1>2, MulMono
    <2> QED BY <2>2, <1>5, <1>3
  <1> QED BY <1>2, <1>6

THEOREM NearestInside ==
    ASSUME NEW inSize \in Nat, NEW Q \in Nat, NEW a \in Nat, NEW wq \in Nat, NEW n \in Nat, NEW i \in Nat,
           Q >= 1, n >= 1, wq >= 1, i < n, a + wq <= Q * inSize
    PROVE  /\ CenN(a, wq, n, i) \div CenD(Q, n) \in Nat
           /\ CenN(a, wq, n, i) \div CenD(Q, n) < inSize
<1>1. CenN(a, wq, n, i) \in Nat
  BY DEF CenN
<1>2. CenD(Q, n) \in Nat /\ CenD(Q, n) >= 1
  <2>1. Q * n \in Nat /\ Q * n >= 1  BY Z3
  <2> QED BY <2>1 DEF CenD
<1>3. CenN(a, wq, n, i) < CenD(Q, n) * inSize
  <2>1. 2 * i + 1 <= 2 * n - 1  OBVIOUS
  <2>2. (2 * i + 1) * wq <= (2 * n - 1) * wq
    BY <2>1, Z3
  <2>3. (2 * n - 1) * wq < 2 * n * wq
    BY Z3
  <2>4. 2 * n * a + 2 * n * wq = 2 * n * (a + wq)
    BY Z3
  <2>5. 2 * n * (a + wq) <= 2 * n * (Q * inSize)
    BY Z3
  <2>6. 2 * n * (Q * inSize) = (2 * Q * n) * inSize
    BY Z3
  <2>7. 2 * n * a \in Nat /\ (2 * i + 1) * wq \in Nat /\ (2 * n - 1) * wq \in Nat /\ 2 * n * wq \in Nat
    BY Z3
  <2> QED BY <2>2, <2>3, <2>4, <2>5, <2>6, <2>7 DEF CenN, CenD
<1> QED BY <1>1, <1>2, <1>3, DivLess
=============================================================================
