----------------------------- MODULE BandProof -----------------------------
(***************************************************************************)
(* TLAPS proof of the band arithmetic of Views!Split for ALL natural       *)
(* sizes (not only u32): cutting `size` into `parts` bands with            *)
(*   step = size \div parts,  rem = size % parts,                          *)
(*   Off(k) = (k-1)*step + Min(k-1, rem),  Len(k) = step + [k <= rem]      *)
(* gives consecutive, non-empty bands whose lengths differ by at most one  *)
(* and that end exactly at `size`.  (Apalache checks the same statement    *)
(* for the u32 range in lemmas/BandLemmas.tla; TLC checks Views!Split      *)
(* against it at small scope.)                                             *)
(***************************************************************************)
EXTENDS Integers, TLAPS

Min(a, b) == IF a < b THEN a ELSE b
Step(size, parts) == size \div parts
Rem(size, parts) == size % parts
Off(size, parts, k) == (k - 1) * Step(size, parts) + Min(k - 1, Rem(size, parts))
Len(size, parts, k) == Step(size, parts) + (IF k <= Rem(size, parts) THEN 1 ELSE 0)

LEMMA DivMod ==
    ASSUME NEW size \in Nat, NEW parts \in Nat, parts >= 1
    PROVE  /\ Step(size, parts) \in Nat
           /\ Rem(size, parts) \in 0 .. parts - 1
           /\ size = parts * Step(size, parts) + Rem(size, parts)
  <1>1. parts \in Nat \ {0}  OBVIOUS
  <1> QED BY <1>1, Z3 DEF Step, Rem

THEOREM BandsTile ==
    ASSUME NEW size \in Nat, NEW parts \in Nat, parts >= 1, parts <= size,
           NEW i \in 1 .. parts
    PROVE  /\ Off(size, parts, 1) = 0
           /\ Off(size, parts, i) + Len(size, parts, i) = Off(size, parts, i + 1)
           /\ Len(size, parts, i) >= 1
           /\ Len(size, parts, i) - Step(size, parts) \in {0, 1}
           /\ Off(size, parts, parts + 1) = size
<1> DEFINE q == Step(size, parts)
<1> DEFINE r == Rem(size, parts)
<1>1. q \in Nat /\ r \in 0 .. parts - 1 /\ size = parts * q + r
  BY DivMod
<1>2. q >= 1
  <2>1. CASE q = 0
    <3>1. size = r  BY <1>1, <2>1
    <3>2. r < parts  BY <1>1
    <3> QED BY <3>1, <3>2
  <2> QED BY <1>1, <2>1
<1>3. Off(size, parts, 1) = 0
  BY <1>1 DEF Off, Min
<1>4. Off(size, parts, i) + Len(size, parts, i) = Off(size, parts, i + 1)
  <2>0. i \in Nat /\ i >= 1  OBVIOUS
  <2>1. (i + 1 - 1) * q = (i - 1) * q + q
    <3>1. \A a, b \in Nat : (a + 1) * b = a * b + b  BY Z3
    <3>2. i - 1 \in Nat /\ i + 1 - 1 = (i - 1) + 1  BY <2>0
    <3> QED BY <3>1, <3>2, <1>1
  <2>2. Min(i - 1, r) + (IF i <= r THEN 1 ELSE 0) = Min(i + 1 - 1, r)
    BY <1>1 DEF Min
  <2> QED BY <1>1, <2>0, <2>1, <2>2 DEF Off, Len, Min
<1>5. Len(size, parts, i) >= 1
  BY <1>1, <1>2 DEF Len
<1>6. Len(size, parts, i) - Step(size, parts) \in {0, 1}
  BY <1>1 DEF Len
<1>7. Off(size, parts, parts + 1) = size
  <2>1. Min(parts + 1 - 1, r) = r
    BY <1>1 DEF Min
  <2>2. (parts + 1 - 1) * q = parts * q
    BY <1>1
  <2> QED BY <1>1, <2>1, <2>2 DEF Off
<1> QED BY <1>3, <1>4, <1>5, <1>6, <1>7
=============================================================================
