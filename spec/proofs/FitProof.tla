------------------------------ MODULE FitProof ------------------------------
(***************************************************************************)
(* TLAPS proof of lemmas/FitLemmas!Inside for ALL natural sizes (Apalache  *)
(* checks 1..65535): the ideal fit-crop of Geometry lies inside the source *)
(* -- with margin M = |sw*dh - dw*sh| >= 0 in the cropped dimension and a  *)
(* centering cn/cq clamped to [0, 1], the offset M*cn/cq satisfies         *)
(* 0 <= M*cn <= M*cq (cross-multiplied, no division).                      *)
(***************************************************************************)
EXTENDS Integers, TLAPS

LEMMA MulMono ==
    ASSUME NEW u \in Nat, NEW v \in Nat, NEW w \in Nat, v >= w
    PROVE  u * v >= u * w /\ u * w \in Nat
  <1>1. v = w + (v - w) /\ v - w \in Nat  OBVIOUS
  <1>2. u * (w + (v - w)) = u * w + u * (v - w)  BY Z3
  <1>3. u * (v - w) \in Nat /\ u * w \in Nat  BY <1>1, Z3
  <1> QED BY <1>1, <1>2, <1>3

Wider(sw, sh, dw, dh) == sw * dh >= dw * sh

THEOREM Inside ==
    ASSUME NEW sw \in Nat, NEW sh \in Nat, NEW dw \in Nat, NEW dh \in Nat, NEW cn \in Nat, NEW cq \in Nat,
           cq >= 1, cn <= cq
    PROVE  IF Wider(sw, sh, dw, dh)
           THEN /\ dw * sh <= sw * dh
                /\ (sw * dh - dw * sh) * cn <= (sw * dh - dw * sh) * cq
                /\ (sw * dh - dw * sh) * cn >= 0
           ELSE /\ sw * dh <= sh * dw
                /\ (sh * dw - sw * dh) * cn <= (sh * dw - sw * dh) * cq
                /\ (sh * dw - sw * dh) * cn >= 0
<1>1. sw * dh \in Nat /\ dw * sh \in Nat /\ sh * dw \in Nat /\ sh * dw = dw * sh
  BY Z3
<1>2. CASE Wider(sw, sh, dw, dh)
  <2>1. sw * dh - dw * sh \in Nat  BY <1>1, <1>2 DEF Wider
  <2>2. (sw * dh - dw * sh) * cq >= (sw * dh - dw * sh) * cn /\ (sw * dh - dw * sh) * cn \in Nat
    BY <2>1, MulMono
  <2> QED BY <1>2, <2>1, <2>2 DEF Wider
<1>3. CASE ~Wider(sw, sh, dw, dh)
  <2>1. sh * dw - sw * dh \in Nat /\ sw * dh <= sh * dw  BY <1>1, <1>3 DEF Wider
  <2>2. (sh * dw - sw * dh) * cq >= (sh * dw - sw * dh) * cn /\ (sh * dw - sw * dh) * cn \in Nat
    BY <2>1, MulMono
  <2> QED BY <1>3, <2>1, <2>2 DEF Wider
<1> QED BY <1>2, <1>3
=============================================================================
