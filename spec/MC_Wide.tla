------------------------------ MODULE MC_Wide ------------------------------
(* Model-checks the Wide module against TLC's native integer arithmetic.   *)
EXTENDS Wide, TLC, FiniteSets

Lattice == {0, 1, 2, 3, 7, 255, 256, 16383, 16384, 16385, 32767, 32768, 65535, 65536,
            268435455, 268435456, 268435457, 1073741823, 1073741824, 2147483647}
Small == 0 .. 40
T == Lattice \cup Small

VARIABLES a, b
Init == a \in T /\ b \in T
Next == UNCHANGED <<a, b>>

A == FromInt(a)
Bw == FromInt(b)

RoundTrip == IsWide(A) /\ Fits31(A) /\ ToInt(A) = a
CmpOK == Cmp(A, Bw) = (IF a < b THEN -1 ELSE IF a > b THEN 1 ELSE 0)
AddOK == a + b - 2147483647 <= 0 => (IsWide(Add(A, Bw)) /\ ToInt(Add(A, Bw)) = a + b)
\* sums beyond 31 bits: check through subtraction
AddSubOK == Sub(Add(A, Bw), Bw) = A /\ Sub(Add(A, Bw), A) = Bw
SubOK == a >= b => (IsWide(Sub(A, Bw)) /\ ToInt(Sub(A, Bw)) = a - b)
MulSmallOK == (b < 65536 /\ (a < 32768 \/ b < 2)) =>
                 (IsWide(MulSmall(A, b)) /\ ToInt(MulSmall(A, b)) = a * b)
MulOK == /\ IsWide(Mul(A, Bw))
         /\ Mul(A, Bw) = Mul(Bw, A)
         /\ (a < 46340 /\ b < 46340 => ToInt(Mul(A, Bw)) = a * b)
         /\ (b > 0 /\ b < 65536 => DivSmall(Mul(A, Bw), b) = A /\ ModSmall(Mul(A, Bw), b) = 0)
         /\ (b < 65536 => Mul(A, Bw) = MulSmall(A, b))
DivOK == (b > 0 /\ b < 65536) =>
            /\ ToInt(DivSmall(A, b)) = a \div b
            /\ ModSmall(A, b) = a % b
ShiftOK == \A k \in {0, 1, 13, 14, 15, 27, 28, 29, 40, 70} :
              /\ Shr(Shl(A, k), k) = A
              /\ IsWide(Shl(A, k))
              /\ (k <= 30 => ToInt(Shr(A, k)) = a \div Pow2(k))
              /\ LowBitsZero(Shl(A, k), k)
              /\ (a > 0 => BitLen(Shl(A, k)) = BitLen(A) + k)
              /\ (k <= 30 => LowBitsZero(A, k) = (a % Pow2(k) = 0))
BitOK == \A k \in 0 .. 30 : Bit(A, k) = (a \div Pow2(k)) % 2
LimbsOK == FromLimbs(<<a % 65536, a \div 65536>>) = A

SA == SFromInt(a - 20)
SB == SFromInt(b - 20)
SignedOK ==
   (a <= 40 /\ b <= 40) =>
     /\ SToInt(SAdd(SA, SB)) = (a - 20) + (b - 20)
     /\ SToInt(SSub(SA, SB)) = (a - 20) - (b - 20)
     /\ SToInt(SMul(SA, SB)) = (a - 20) * (b - 20)
     /\ SToInt(SMulSmall(SA, b - 20)) = (a - 20) * (b - 20)
     /\ SCmp(SA, SB) = (IF a < b THEN -1 ELSE IF a > b THEN 1 ELSE 0)
     /\ \A k \in 0 .. 4 : SToInt(SShrFloor(SA, k)) = (a - 20) \div Pow2(k)

\* dyadic: value a * 2^(b-20) for small a, b
DyOK == (a <= 40 /\ b <= 40 /\ a > 0) =>
          LET d == [s |-> 1, m |-> <<a, 0, 0, 0>>, e |-> b - 20]
          IN  /\ DyMag(d, 20) = Shl(A, b)
              /\ DyExact(d, 20)
              /\ DyMag(d, 10) = (IF b >= 10 THEN Shl(A, b - 10) ELSE Shr(A, 10 - b))
              /\ DyExact(d, 10) = (b >= 10 \/ a % Pow2(10 - b) = 0)

\* dyadic add / sub / cmp / mul against native arithmetic at a common scale 2^-5
Dy2OK == (a <= 12 /\ b <= 12) =>
    LET ea == (a % 11) - 5
        eb == (b % 11) - 5
        x == Dy(1, FromInt(a), eb)        \* a * 2^eb
        y == Dy(-1, FromInt(b), ea)       \* -b * 2^ea
        X == a * Pow2(eb + 5)
        Y == -(b * Pow2(ea + 5))
        xx == IF a = 0 THEN DyZero ELSE x
        yy == IF b = 0 THEN DyZero ELSE y
    IN  /\ SToInt(DyAt(DyAdd(xx, yy), -5)) = X + Y
        /\ SToInt(DyAt(DySub(xx, yy), -5)) = X - Y
        /\ DyCmp(xx, yy) = (IF X < Y THEN -1 ELSE IF X > Y THEN 1 ELSE 0)
        /\ SToInt(DyAt(DyMulInt(xx, 3), -5)) = 3 * X
        /\ SToInt(DyAt(DyMulInt(yy, -7), -5)) = -7 * Y
        /\ SToInt(DyAt(DyMul(xx, yy), -10)) = X * Y
        /\ DyWithin(xx, 2, DyAbs(yy)) = (4 * X <= -Y)

\* rounding to 53 bits: a * 2^60 + b has 60 + bitlen(a) bits
RoundOK == (a > 0 /\ a < 65536 /\ b < 65536) =>
    LET x == Dy(1, Add(Shl(A, 60), Bw), -3)
        r == DyRound53(x)
        n == BitLen(x.m)
    IN  /\ BitLen(r.m) <= 54
        /\ (n <= 53 => r = x)
        \* |r - x| <= half an ulp of the 53-bit format
        /\ (n > 53 => DyLe(DyScale2(DyAbs(DySub(r, x)), 1), Dy(1, FromInt(1), x.e + (n - 53))))
        \* ties go to even
        /\ (n > 53 /\ Bit(x.m, n - 54) = 1 /\ LowBitsZero(x.m, n - 54) => Bit(Shr(r.m, 0), (r.e - x.e) - (n - 53)) = 0 \/ r.e # x.e + (n - 53))

AllOK == RoundTrip /\ CmpOK /\ AddOK /\ AddSubOK /\ SubOK /\ MulSmallOK /\ MulOK /\ DivOK
         /\ ShiftOK /\ BitOK /\ LimbsOK /\ SignedOK /\ DyOK /\ Dy2OK /\ RoundOK
=============================================================================
