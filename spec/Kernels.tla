------------------------------- MODULE Kernels -------------------------------
(***************************************************************************)
(* The documented resampling kernels, evaluated exactly.                   *)
(*                                                                         *)
(* Box, Bilinear, CatmullRom and Mitchell are piecewise polynomials with   *)
(* rational coefficients: KNum(f, x, d) is the numerator of K(x/d) over    *)
(* the common denominator KDen(f, d) (signed Wide numbers), for x >= 0     *)
(* (all kernels are even).  Hamming, Gaussian and Lanczos3 are             *)
(* transcendental; KernelTable holds certified rational enclosures on the  *)
(* grid of multiples of 1/64 and is used on grid-aligned geometries.       *)
(***************************************************************************)
EXTENDS FixedPoint, KernelTable

Rational == {"Box", "Bilinear", "CatmullRom", "Mitchell"}
Tabulated == {"Hamming", "Gaussian", "Lanczos3"}

SW(n) == SFromInt(n)                      \* |n| < 2^31
Cube(x) == SMul(SMul(x, x), x)
Sq(x) == SMul(x, x)
\* c3 x^3 + c2 x^2 d + c1 x d^2 + c0 d^3   (small integer coefficients)
Poly3(x, d, c3, c2, c1, c0) ==
    SAdd(SAdd(SMulSmall(Cube(SW(x)), c3), SMulSmall(SMul(Sq(SW(x)), SW(d)), c2)),
         SAdd(SMulSmall(SMul(SW(x), Sq(SW(d))), c1), SMulSmall(Cube(SW(d)), c0)))

\* numerator of K(x/d) over the denominator m * d^3 (m = 1, 1, 2, 18), x >= 0, d > 0
KNum(f, x, d) ==
    CASE f = "Box" -> (IF 2 * x <= d THEN Cube(SW(d)) ELSE SZero)           \* the tie 2x = d is handled by the caller
      [] f = "Bilinear" -> (IF x < d THEN SMul(SW(d - x), Sq(SW(d))) ELSE SZero)
      [] f = "CatmullRom" -> (IF x < d THEN Poly3(x, d, 3, -5, 0, 2)
                               ELSE IF x < 2 * d THEN Poly3(x, d, -1, 5, -8, 4) ELSE SZero)
      [] f = "Mitchell" -> (IF x < d THEN Poly3(x, d, 21, -36, 0, 16)
                             ELSE IF x < 2 * d THEN Poly3(x, d, -7, 36, -60, 32) ELSE SZero)
\* is (x/d) exactly on a discontinuity of the kernel?
\* (Box edge; the Gaussian is cut off at 3 on a half-open interval, so the two ends differ)
KTie(f, x, d) == (f = "Box" /\ 2 * x = d) \/ (f = "Gaussian" /\ x = 3 * d)

\* tabulated kernels: value at j/64 as a signed Wide scaled by 2^60 (midpoint of the certified enclosure,
\* whose width is below 2^-40 of the kernel's maximum)
OnGrid(x, d) == (64 * x) % d = 0
GridIndex(x, d) == (64 * x) \div d
TabNum(f, j) ==
    IF j >= TabLen(f) THEN SZero
    ELSE LET r == TabEntry(f, j) IN S(r[1] < 0, r[2])
=============================================================================
