CONSTANTS MAXV = 3
  PSET = {3}
INIT Init
NEXT Next
INVARIANT Inv
INVARIANT ClipInTable
CHECK_DEADLOCK FALSE
