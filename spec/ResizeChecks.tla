----------------------------- MODULE ResizeChecks -----------------------------
(***************************************************************************)
(* Observation checks evaluated when a recorded call has returned.  Each   *)
(* operator states one of the listed properties on the logged arrays;      *)
(* which of them apply to a case is listed in its `chk` field.             *)
(*   b = the begin record (arguments, echo), e = the end record            *)
(*   (observations), a = arguments as the Resizer specification sees them. *)
(***************************************************************************)
EXTENDS Resizer, SequencesExt

Has(b, x) == x \in ToSet(b.chk)

\* component k (1-based) of pixel (x, y) (0-based) of a w-pixel-wide image with nc components
Comp(arr, w, nc, x, y, k) == arr[(y * w + x) * nc + k]
Pixel(arr, w, nc, x, y) == [k \in 1 .. nc |-> Comp(arr, w, nc, x, y, k)]

\* ---- C12: bit-exact copy of the (integer) crop region
IsCopyOf(b, e, a) ==
    LET nc == b.nc
        l0 == a.box[1] \div a.Q
        t0 == a.box[2] \div a.Q
    IN  /\ Len(e.dst) = a.dw * a.dh * nc
        /\ \A y \in 0 .. a.dh - 1 : \A x \in 0 .. a.dw - 1 : \A k \in 1 .. nc :
              Comp(e.dst, a.dw, nc, x, y, k) = Comp(e.src, a.sw, nc, l0 + x, t0 + y, k)

\* ---- C11: every destination pixel is a bit-exact copy of the source pixel under its centre
IsNearestOf(b, e, a) ==
    LET nc == b.nc
    IN  /\ Len(e.dst) = a.dw * a.dh * nc
        /\ \A y \in 0 .. a.dh - 1 : \A x \in 0 .. a.dw - 1 :
              \E cx \in NearestSet(a.sw, a.box[1], a.box[3], a.Q, a.dw, x) :
              \E cy \in NearestSet(a.sh, a.box[2], a.box[4], a.Q, a.dh, y) :
                 Pixel(e.dst, a.dw, nc, x, y) = Pixel(e.src, a.sw, nc, cx, cy)

\* crop boxes narrower than the rational grid (one ulp wide, flush against an edge): a box that lies inside one source
\* column b.cell[1] (row b.cell[2]; -1 = not confined, the axis spans what a.box says) confines every centre to it, because
\* left <= left + (x + 1/2) w / n < left + w
IsNearestCell(b, e, a) ==
    LET nc == b.nc
    IN  /\ Len(e.dst) = a.dw * a.dh * nc
        /\ \A y \in 0 .. a.dh - 1 : \A x \in 0 .. a.dw - 1 :
              \E cx \in (IF b.cell[1] >= 0 THEN {b.cell[1]} ELSE NearestSet(a.sw, a.box[1], a.box[3], a.Q, a.dw, x)) :
              \E cy \in (IF b.cell[2] >= 0 THEN {b.cell[2]} ELSE NearestSet(a.sh, a.box[2], a.box[4], a.Q, a.dh, y)) :
                 Pixel(e.dst, a.dw, nc, x, y) = Pixel(e.src, a.sw, nc, cx, cy)

\* ---- C10: a uniform image stays uniform (b.v = the value of each component)
IsUniform(b, e, tol) ==
    \A i \in 1 .. Len(e.dst) : Abs(e.dst[i] - b.v[((i - 1) % b.nc) + 1]) <= tol

\* ---- C18: per component plane, destination range inside source range
InRange(e, tol) ==
    \A k \in 1 .. Len(e.mm) : e.mm[k][1] >= e.smm[k][1] - tol /\ e.mm[k][2] <= e.smm[k][2] + tol

\* ---- C07: where the resampled alpha is zero the colour is zero
ZeroAlphaZeroColour(b, e) ==
    \A p \in 0 .. (Len(e.dst) \div b.nc) - 1 :
        e.dst[p * b.nc + b.nc] = 0 => \A k \in 1 .. b.nc - 1 : e.dst[p * b.nc + k] = 0
\* the alpha plane of two results is the same
SameAlphaPlane(b, e, r) ==
    /\ Len(e.dst) = Len(r)
    /\ \A p \in 0 .. (Len(e.dst) \div b.nc) - 1 : e.dst[p * b.nc + b.nc] = r[p * b.nc + b.nc]

\* ---- C12: no resampling along a dimension whose extent is unchanged: two sources that differ only in
\* column (row) j give results that differ only in column (row) j  (b.skip = [axis, j])
SameExcept(b, e, a, r) ==
    /\ Len(e.dst) = Len(r)
    /\ \A y \in 0 .. a.dh - 1 : \A x \in 0 .. a.dw - 1 :
          (IF b.skip[1] = 0 THEN x # b.skip[2] ELSE y # b.skip[2]) =>
             Pixel(e.dst, a.dw, b.nc, x, y) = Pixel(r, a.dw, b.nc, x, y)

\* ---- C10 through the per-plane (min, max) projection: min = max = v
UniformMM(b, e, tol) ==
    \A k \in 1 .. Len(e.mm) : Abs(e.mm[k][1] - b.v[k]) <= tol /\ Abs(e.mm[k][2] - b.v[k]) <= tol

\* ---- group memo
\* float results of two back-ends: within `ulps` units in the last place, except where both results are
\* below the cancellation threshold b.thr (a re-associated f64 sum of terms much larger than the result)
\* mexp (optional, 0 = absent): biased exponent of the magnitude M of the summed terms; a result of exponent e < mexp is
\* compared in units of M's last place (ulps * 2^(mexp - e) of its own)
WithinF32(x, r, ulps, thr, mexp) ==
    /\ Len(x) = Len(r)
    /\ \A i \in 1 .. Len(r) :
          LET big == IF Abs(x[i]) > Abs(r[i]) THEN Abs(x[i]) ELSE Abs(r[i])
              e == big \div 8388608
              k == IF mexp > e THEN (IF mexp - e > 20 THEN 20 ELSE mexp - e) ELSE 0
          IN  Abs(x[i] - r[i]) <= ulps * Pow2(k) \/ (Abs(x[i]) <= thr /\ Abs(r[i]) <= thr)
Within(x, r, tol) == Len(x) = Len(r) /\ \A i \in 1 .. Len(r) : Abs(x[i] - r[i]) <= tol
GeAll(x, r, tol) == Len(x) = Len(r) /\ \A i \in 1 .. Len(r) : x[i] >= r[i] - tol
RefOf(e) == IF "dst" \in DOMAIN e THEN e.dst ELSE IF "dig" \in DOMAIN e THEN e.dig ELSE << >>

ObsVerdict(b, e, a, grp, ref) ==
    LET inGroup == "g" \in DOMAIN b /\ b.g = grp
    IN
    IF Has(b, "ret_ok") /\ e.ret # "ok" THEN "returned-" \o e.retk
    ELSE IF Has(b, "ret_err") /\ e.retk # "err" THEN "error-expected-got-" \o e.retk
    ELSE IF Has(b, "no_panic") /\ e.retk \notin {"ok", "err"} THEN "panic-or-crash"
    ELSE IF Has(b, "no_crash") /\ e.retk \notin {"ok", "err", "panic"} THEN "crash"
    \* a call that panicked (where the statement tolerates that) or crashed left no observation record
    ELSE IF e.retk \notin {"ok", "err"} THEN (IF Has(b, "no_crash") THEN "ok" ELSE "panic-or-crash")
    ELSE IF Has(b, "outside") /\ e.outd0 # e.outd1 THEN "wrote-outside-destination"
    ELSE IF Has(b, "srcsame") /\ "srcd0" \in DOMAIN e /\ e.srcd0 # e.srcd1 THEN "source-modified"
    ELSE IF Has(b, "untouched") /\ e.dst # e.dst0 THEN "destination-touched"
    ELSE IF Has(b, "copy") /\ ~IsCopyOf(b, e, a) THEN "not-a-copy"
    ELSE IF Has(b, "near") /\ ~IsNearestOf(b, e, a) THEN "not-nearest"
    ELSE IF Has(b, "near_cell") /\ ~IsNearestCell(b, e, a) THEN "not-nearest"
    ELSE IF Has(b, "uniform") /\ ~IsUniform(b, e, 0) THEN "not-uniform"
    ELSE IF Has(b, "uniform_ulp1") /\ ~IsUniform(b, e, 1) THEN "not-uniform"
    ELSE IF Has(b, "uniform_mm") /\ ~UniformMM(b, e, 0) THEN "not-uniform"
    ELSE IF Has(b, "uniform_mm_ulp1") /\ ~UniformMM(b, e, 1) THEN "not-uniform"
    ELSE IF Has(b, "range") /\ ~InRange(e, 0) THEN "out-of-source-range"
    ELSE IF Has(b, "range_ulp1") /\ ~InRange(e, 1) THEN "out-of-source-range"
    ELSE IF Has(b, "alpha_zero") /\ ~ZeroAlphaZeroColour(b, e) THEN "colour-under-zero-alpha"
    ELSE IF inGroup /\ Has(b, "memo_exact") /\ RefOf(e) # ref THEN "differs-from-group"
    ELSE IF inGroup /\ Has(b, "memo_pm1") /\ ~Within(e.dst, ref, 1) THEN "differs-from-group"
    ELSE IF inGroup /\ Has(b, "memo_ulp") /\ ~Within(e.dst, ref, b.ulps) THEN "differs-from-group"
    ELSE IF inGroup /\ Has(b, "memo_f32") /\ ~WithinF32(e.dst, ref, b.ulps, b.thr, IF "mexp" \in DOMAIN b THEN b.mexp ELSE 0) THEN "differs-from-group"
    ELSE IF inGroup /\ Has(b, "mono") /\ ~GeAll(e.dst, ref, 0) THEN "not-monotone"
    ELSE IF inGroup /\ Has(b, "mono_ulp1") /\ ~GeAll(e.dst, ref, 1) THEN "not-monotone"
    ELSE IF inGroup /\ Has(b, "same_except") /\ ~SameExcept(b, e, a, ref) THEN "resampled-along-unchanged-dimension"
    ELSE IF inGroup /\ Has(b, "same_alpha") /\ ~SameAlphaPlane(b, e, ref) THEN "alpha-plane-differs"
    ELSE "ok"
=============================================================================
