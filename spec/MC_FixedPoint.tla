---------------------------- MODULE MC_FixedPoint ----------------------------
(* The fixed-point pipeline at reduced depth, exhaustively: 2- or 3-bit components (max MAXV),
   precisions PSET, windows of up to 3 taps, every coefficient vector with |k| <= 2^p + 2 and
   sum within 2^p +- 3, every window content.
     (ii)  constant in => constant out for ALL values  iff  UnityBand   (C10)
     (iii) non-negative coefficients inside the band: result within [min, max] of the window
           and monotone in every source value                            (C18)
     (i)   the result is within half a unit of the clamped exact sum      (C01)
     (iv)  sum |k| < 2.5 * 2^p keeps the (scaled) clip index inside its table (C03); beyond
           that it can leave it (witness config)                                         *)
EXTENDS FixedPoint, TLC
CONSTANTS MAXV, PSET
VARIABLES p, ks, xs
vars == <<p, ks, xs>>
KRange(pp) == -(Pow2(pp) + 2) .. Pow2(pp) + 2
Init == /\ p \in PSET
        /\ \E n \in 1 .. 3 : ks \in [1 .. n -> KRange(p)] /\ xs \in [1 .. n -> 0 .. MAXV]
        /\ Abs(SumSeq(ks, 1) - Pow2(p)) <= 3
Next == UNCHANGED vars

S0 == SumSeq(ks, 1)
Const(v) == [i \in 1 .. Len(ks) |-> v]
AllConstKept == \A v \in 0 .. MAXV : ConvSample(Const(v), ks, p, MAXV) = v
NonNeg == \A i \in 1 .. Len(ks) : ks[i] >= 0
MinX == CHOOSE m \in 0 .. MAXV : (\E i \in 1 .. Len(xs) : xs[i] = m) /\ \A i \in 1 .. Len(xs) : xs[i] >= m
MaxX == CHOOSE m \in 0 .. MAXV : (\E i \in 1 .. Len(xs) : xs[i] = m) /\ \A i \in 1 .. Len(xs) : xs[i] <= m
Out == ConvSample(xs, ks, p, MAXV)

Inv ==
    /\ AllConstKept = UnityBand(S0, p, MAXV)
    /\ (NonNeg /\ UnityBand(S0, p, MAXV)) => (MinX <= Out /\ Out <= MaxX)
    /\ NonNeg => \A i \in 1 .. Len(xs) :
                    xs[i] < MAXV => ConvSample([xs EXCEPT ![i] = @ + 1], ks, p, MAXV) >= Out
    \* within half a unit of the clamped exact value  sum k x / 2^p
    /\ LET d == Dot(xs, ks, 1)
       IN  \/ (d < 0 /\ Out = 0) \/ (d > MAXV * Pow2(p) /\ Out = MAXV)
           \/ Abs(2 * Out * Pow2(p) - 2 * d) <= Pow2(p)
\* scaled clip table: values -2.5 max .. 2.5 max (the real one: -640 .. 639 for max 255)
ClipInTable == SumAbs(ks, 1) * 2 < 5 * Pow2(p) => ((Pow2(p - 1) + Dot(xs, ks, 1)) \div Pow2(p)) \in -(MAXV * 5 + 2) \div 2 .. (MAXV * 5 + 1) \div 2
=============================================================================
