CONSTANT NMAX = 9
INIT Init
NEXT Next
INVARIANT Inv
CHECK_DEADLOCK FALSE
