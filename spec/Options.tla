------------------------------ MODULE Options ------------------------------
(***************************************************************************)
(* ResizeOptions as a state machine.  The builder methods of the library   *)
(* (`resize_alg`, `crop`, `fit_into_destination`, `use_alpha`) each return *)
(* a copy with ONE field replaced; `Resizer::resize(.., None)` stands for  *)
(* the default options.  What a resize then does is a function of the      *)
(* final option state only:                                                *)
(*   - the crop box in force (`Resolve`): whole source / the explicit box  *)
(*     / the fit-crop of the source into the destination's aspect ratio    *)
(*     with the stored centering (default (1/2, 1/2));                      *)
(*   - the algorithm dispatched and whether the alpha phase is requested.  *)
(* Binding: MC_Options enumerates all builder sequences over an alphabet   *)
(* and prints them (spec -> implementation); the harness applies each      *)
(* sequence to the real builder, resizes, and TraceOptions judges the      *)
(* recorded crop box / dispatch events against `Fold` of the same steps.   *)
(***************************************************************************)
EXTENDS Naturals, Sequences

\* an algorithm value: a \in {"nearest","conv","interp","ss"}, filter name, multiplicity (ss only)
Alg(a, f, m) == [a |-> a, f |-> f, m |-> m]
DefaultAlg == Alg("conv", "Lanczos3", 0)

\* cropping: <<"none">> | <<"crop", <<l,t,w,h>>>> (quarter pixels) | <<"fit", <<cxn,cxq>>, <<cyn,cyq>>>>
Default == [alg |-> DefaultAlg, crop |-> <<"none">>, alpha |-> TRUE]

DefaultCentering == << <<1, 2>>, <<1, 2>> >>

\* one builder call
Apply(o, s) ==
    CASE s.op = "new"     -> Default
      [] s.op = "default" -> Default
      [] s.op = "alg"     -> [o EXCEPT !.alg = Alg(s.alg, s.filter, s.m)]
      [] s.op = "crop"    -> [o EXCEPT !.crop = <<"crop", s.v>>]
      [] s.op = "fit"     -> [o EXCEPT !.crop = IF Len(s.v) = 0 THEN <<"fit", DefaultCentering[1], DefaultCentering[2]>>
                                                ELSE <<"fit", s.v[1], s.v[2]>>]
      [] s.op = "alpha"   -> [o EXCEPT !.alpha = s.v]

RECURSIVE FoldFrom(_, _, _)
FoldFrom(o, steps, i) == IF i > Len(steps) THEN o ELSE FoldFrom(Apply(o, steps[i]), steps, i + 1)
Fold(steps) == FoldFrom(Default, steps, 1)

\* code of the `dispatch` hook
AlgCode(alg) == CASE alg.a = "nearest" -> 0 [] alg.a = "conv" -> 1 [] alg.a = "interp" -> 2 [] alg.a = "ss" -> 3 + 256 * alg.m

\* ---- properties of the builder (checked by MC_Options over all sequences) ----
IsCropStep(s) == s.op \in {"crop", "fit", "new", "default"}
IsAlgStep(s) == s.op \in {"alg", "new", "default"}
IsAlphaStep(s) == s.op \in {"alpha", "new", "default"}

LastIdx(steps, P(_)) == LET I == {i \in 1 .. Len(steps) : P(steps[i])}
                        IN  IF I = {} THEN 0 ELSE CHOOSE i \in I : \A j \in I : j <= i

\* the last call that sets a field decides it; calls that set other fields do not disturb it
LastWins(steps, o) ==
    /\ LET i == LastIdx(steps, IsCropStep) IN o.crop = IF i = 0 THEN Default.crop ELSE Apply(Default, steps[i]).crop
    /\ LET i == LastIdx(steps, IsAlgStep) IN o.alg = IF i = 0 THEN Default.alg ELSE Apply(Default, steps[i]).alg
    /\ LET i == LastIdx(steps, IsAlphaStep) IN o.alpha = IF i = 0 THEN Default.alpha ELSE Apply(Default, steps[i]).alpha
=============================================================================
