----------------------------- MODULE TraceResize -----------------------------
(***************************************************************************)
(* Trace validation of recorded Resizer::resize executions.                *)
(*                                                                         *)
(* The trace is a sequence of lines:                                       *)
(*   begin  id rz args chk        a call starts on resizer slot rz (-1 =   *)
(*                                fresh object); args are its arguments    *)
(*   hook   id k ...              one hook event of the implementation     *)
(*   ctl    id rz what            reset_internal_buffers / clone / new     *)
(*   end    id ret ...            the call returned; observations          *)
(*                                                                         *)
(* Every hook line must be a step of the Resizer specification (Resizer!Ok *)
(* with the logged fields bound: buffer lengths, temporary image sizes,    *)
(* window extents, pass order and offsets); at `end` the call-level        *)
(* properties (Written, NoStaleRead, BuffersHome, Canonical, ResultOK) and *)
(* the observation checks listed in `chk` are evaluated (ResizeChecks).    *)
(* A mismatch marks the case BAD and validation resumes with the next      *)
(* case, so one rejection never hides the rest of the trace.               *)
(***************************************************************************)
EXTENDS ResizeChecks, Threading, TLC, Json, IOUtils

Rec == ndJsonDeserialize(IOEnv.TRACE)

VARIABLES l, nbad, st, slots, cs, pbad, grp, ref, thr, tbad
vars == <<l, nbad, st, slots, cs, pbad, grp, ref, thr, tbad>>

Unknown == [b \in Bufs |-> -1]
SlotBufs(rz) == IF rz \in DOMAIN slots THEN slots[rz] ELSE [b \in Bufs |-> 0]

\* kind of a call, decided by the specification from its arguments
KindOf(a) ==
    IF a.dw = 0 \/ a.dh = 0 \/ a.box[3] = 0 \/ a.box[4] = 0 THEN "zero"
    ELSE IF /\ a.box[1] >= 0 /\ a.box[2] >= 0 /\ a.box[3] > 0 /\ a.box[4] > 0
            /\ a.box[1] + a.box[3] <= a.sw * a.Q /\ a.box[2] + a.box[4] <= a.sh * a.Q
    THEN "ok" ELSE "badcrop"

ArgsOf(b) == [kind |-> KindOf(b.args), ps |-> b.args.ps, alphaType |-> b.args.alphaType = 1, u8 |-> b.args.u8 = 1,
              sw |-> b.args.sw, sh |-> b.args.sh, dw |-> b.args.dw, dh |-> b.args.dh,
              box |-> b.args.box, Q |-> b.args.Q, alg |-> b.args.alg, m |-> b.args.m,
              useAlpha |-> b.args.useAlpha = 1, sn |-> b.args.sn, sd |-> b.args.sd]

\* hook events that only confirm what the call record says
InfoOK(s, e) ==
    CASE e.k = "call" -> e.sw = s.c.sw /\ e.sh = s.c.sh /\ e.dw = s.c.dw /\ e.dh = s.c.dh
      [] e.k = "crop_box" -> \A i \in 1 .. 4 : IsFinite(e.d[i]) /\ DyEq(DyMulInt(DyOf(e.d[i]), s.c.Q), DyFromInt(s.c.box[i]))
      \* C03: every index the portable u8 kernels used for their 1280-entry clip table
      [] e.k = "clip_range" -> e.lo >= 0 /\ e.hi < 1280
      [] OTHER -> TRUE
IsInfo(e) == e.k \in {"call", "crop_box", "ss_factor", "clip_range"}

\* with unknown buffer lengths (after a rejected case) the logged lengths are adopted
AdoptBuf(s, buf, len) == IF s.bufs[buf] = -1 THEN [s EXCEPT !.bufs = [s.bufs EXCEPT ![buf] = len]] ELSE s
Adopt(s, e) ==
    CASE e.k = "temp" /\ s.pc = "ss1" -> AdoptBuf(s, "ss", e.len0)
      [] e.k = "temp" /\ s.pc = "al1" -> AdoptBuf(s, "alpha", e.len0)
      [] e.k = "temp" /\ s.pc = "planned" -> AdoptBuf(s, "conv", e.len0)
      [] e.k = "ss_take" -> AdoptBuf(s, "ss", e.len)
      [] e.k = "alpha_take" -> AdoptBuf(s, "alpha", e.len)
      [] OTHER -> s

Init == /\ l = 1 /\ nbad = 0 /\ st = InitState /\ slots = << >> /\ cs = [id |-> -1] /\ pbad = "" /\ grp = -1 /\ ref = << >>
        /\ thr = ThrInit /\ tbad = ""

Begin(e) ==
    /\ e.ev = "begin"
    /\ st' = Upd([InitState EXCEPT !.bufs = SlotBufs(e.rz)], [k |-> "call", args |-> ArgsOf(e)])
    /\ cs' = e /\ pbad' = ""
    /\ thr' = ThrInit /\ tbad' = ""
    /\ UNCHANGED <<nbad, slots, grp, ref>>

Hook(e) ==
    /\ e.ev = "hook"
    /\ IF pbad # "" THEN UNCHANGED <<st, pbad>>
       ELSE IF IsInfo(e) THEN (IF InfoOK(st, e) THEN UNCHANGED <<st, pbad>> ELSE pbad' = "hook-" \o e.k /\ UNCHANGED st)
       ELSE LET s1 == Adopt(st, e)
            IN  IF Ok(s1, e) THEN st' = Upd(s1, e) /\ UNCHANGED pbad
                ELSE pbad' = "hook-" \o e.k \o "-at-" \o st.pc /\ UNCHANGED st
    /\ UNCHANGED <<nbad, slots, cs, grp, ref, thr, tbad>>

\* a band-splitting event of the rayon layer: must be a step of the Threading specification
Thr(e) ==
    /\ e.ev = "thr"
    /\ IF tbad # "" THEN UNCHANGED <<thr, tbad>>
       ELSE IF ThrOk(thr, e) THEN thr' = ThrUpd(thr, e) /\ UNCHANGED tbad
       ELSE tbad' = "threading-" \o e.k \o "-at-" \o thr.pc /\ UNCHANGED thr
    /\ UNCHANGED <<nbad, st, slots, cs, pbad, grp, ref>>

Ctl(e) ==
    /\ e.ev = "ctl"
    /\ slots' = CASE e.what = "reset" -> [x \in DOMAIN slots \cup {e.rz} |-> IF x = e.rz THEN [b \in Bufs |-> 0] ELSE slots[x]]
                  [] e.what = "new" -> [x \in DOMAIN slots \cup {e.rz} |-> IF x = e.rz THEN [b \in Bufs |-> 0] ELSE slots[x]]
                  [] e.what = "clone" -> [x \in DOMAIN slots \cup {e.to} |-> IF x = e.to THEN SlotBufs(e.rz) ELSE slots[x]]
                  [] OTHER -> slots
    /\ UNCHANGED <<nbad, st, cs, pbad, grp, ref, thr, tbad>>

\* verdict of a finished case
Verdict(e) ==
    LET retEv == [k |-> "ret"]
        canRet == Ok(st, retEv)
        fin == IF canRet THEN Upd(st, retEv) ELSE st
        pipe == "pipeline" \in ToSet(cs.chk)
    IN  IF (pipe \/ "clip" \in ToSet(cs.chk)) /\ pbad # "" THEN pbad
        ELSE IF pipe /\ ~canRet THEN "returned-at-" \o st.pc
        ELSE IF pipe /\ ~ResultOK(fin) THEN "result"
        ELSE IF pipe /\ fin.ret = "ok" /\ e.ret # "ok" THEN "returned-" \o e.ret
        ELSE IF pipe /\ fin.ret = "err" /\ e.retk # "err" THEN "error-expected"
        ELSE IF pipe /\ ~Written(fin) THEN "destination-not-written"
        ELSE IF pipe /\ ~NoStaleRead(fin) THEN "stale-read"
        ELSE IF pipe /\ ~Canonical(fin) THEN "not-canonical"
        ELSE IF tbad # "" THEN tbad
        ELSE IF ~ThrJoined(thr) THEN "returned-before-join"
        ELSE ObsVerdict(cs, e, ArgsOf(cs), grp, ref)

End(e) ==
    /\ e.ev = "end"
    /\ LET v == Verdict(e)
       IN  IF v = "ok" THEN nbad' = nbad
           ELSE PrintT(<<"BAD", e.id, v>>) /\ nbad' = nbad + 1
    /\ LET canRet == pbad = "" /\ Ok(st, [k |-> "ret"])
           fin == IF canRet THEN Upd(st, [k |-> "ret"]) ELSE st
       IN  /\ slots' = IF cs.rz < 0 THEN slots
                       ELSE [x \in DOMAIN slots \cup {cs.rz} |->
                               IF x = cs.rz THEN (IF canRet /\ "pipeline" \in ToSet(cs.chk) THEN fin.bufs ELSE Unknown) ELSE slots[x]]
           /\ st' = InitState
    /\ IF "g" \in DOMAIN cs /\ cs.g # grp
       THEN grp' = cs.g /\ ref' = RefOf(e)
       ELSE UNCHANGED <<grp, ref>>
    /\ UNCHANGED <<cs, pbad, thr, tbad>>

Step == /\ l <= Len(Rec)
        /\ LET e == Rec[l] IN Begin(e) \/ Hook(e) \/ Thr(e) \/ Ctl(e) \/ End(e)
        /\ l' = l + 1
Finish == /\ l = Len(Rec) + 1
          /\ PrintT(<<"DONE", Len(Rec), nbad>>)
          /\ l' = l + 1
          /\ UNCHANGED <<nbad, st, slots, cs, pbad, grp, ref, thr, tbad>>
Next == Step \/ Finish
=============================================================================
