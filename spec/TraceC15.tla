------------------------------ MODULE TraceC15 ------------------------------
(***************************************************************************)
(* Trace validation for C15: the recorded result of                        *)
(* CropBox::fit_src_into_dst_size (exact f64 values as dyadic rationals)   *)
(* must be inside the source *exactly*, equal the ideal fit-crop of        *)
(* Geometry (FitW/FitH/FitL/FitT relations) up to a few ulps, span the     *)
(* source in one dimension exactly; Resizer::resize with                   *)
(* fit_into_destination must succeed.                                      *)
(***************************************************************************)
EXTENDS FitJudge, TLC, Json, IOUtils

Rec == ndJsonDeserialize(IOEnv.TRACE)
VARIABLES l, nbad
vars == <<l, nbad>>

Judge(e) ==
    CASE e.op = "fitcrop" -> FitJudge(e)
      [] e.op = "resize" -> (IF e.ret = "ok" THEN "ok" ELSE "resize-with-fit-failed")
      [] OTHER -> "unknown-op"

Init == l = 1 /\ nbad = 0
Step == /\ l <= Len(Rec)
        /\ LET e == Rec[l]
               r == Judge(e)
           IN  IF r = "ok" THEN nbad' = nbad
               ELSE PrintT(<<"BAD", e.id, r>>) /\ nbad' = nbad + 1
        /\ l' = l + 1
Finish == /\ l = Len(Rec) + 1
          /\ PrintT(<<"DONE", Len(Rec), nbad>>)
          /\ l' = l + 1
          /\ UNCHANGED nbad
Next == Step \/ Finish
=============================================================================
