CONSTANT PMAX = 3
INIT Init
NEXT Next
INVARIANT Inv
CHECK_DEADLOCK FALSE
