------------------------------ MODULE MC_Alpha ------------------------------
(* All 65,536 8-bit (colour, alpha) pairs: the portable algorithm satisfies C06's
   statement; and the same for the 16-bit multiply on a boundary lattice (the full
   16-bit range is lemmas/AlphaLemmas). *)
EXTENDS Alpha, TLC
VARIABLES c, a
Init == c \in 0 .. 255 /\ a \in 0 .. 255
Next == UNCHANGED <<c, a>>
L16 == {0, 1, 2, 3, 127, 128, 254, 255, 256, 257, 32767, 32768, 32769, 65533, 65534, 65535}
Inv8 == /\ Mul8Alg(c, a) = MulExact(c, a, 255)
        /\ Div8Alg(c, a) \in DivAllowed(c, a, 255)
        /\ (a = 0 => Div8Alg(c, a) = 0)
        /\ (a = 255 => Div8Alg(c, a) = c /\ Mul8Alg(c, a) = c)        \* opaque: identity
        /\ (c >= a /\ a > 0 => Div8Alg(c, a) = 255)                    \* saturation
        /\ Mul8Alg(c, a) <= MinI(c, a)
        \* round trip loses at most what the multiplication rounded away
        /\ (c <= a /\ a > 0 => Abs(Div8Alg(Mul8Alg(c, a), a) - c) <= (255 + a) \div (2 * a) + 1)
\* lattice check of the Wide 16-bit operators (one state does the whole lattice)
Inv16 == (c = 0 /\ a = 0) =>
           \A x \in L16 : \A y \in L16 :
              /\ Mul16Alg(x, y) = Mul16Exact(x, y)
              /\ Div16Allowed(x, y) \subseteq 0 .. 65535
              /\ (y = 65535 => Div16Allowed(x, y) = {x})
              /\ (y > 0 /\ x >= y => Div16Allowed(x, y) = {65535})
=============================================================================
