INIT Init
NEXT Next
INVARIANT Inv8
INVARIANT Inv16
CHECK_DEADLOCK FALSE
