------------------------------ MODULE TraceC04 ------------------------------
(***************************************************************************)
(* Trace validation for C04: every recorded constructor / resize-with-crop *)
(* call must have answered what the Geometry decisions allow, and an       *)
(* accepted view must expose exactly its rectangle of the parent.          *)
(***************************************************************************)
EXTENDS Geometry, TLC, Json, IOUtils

Rec == ndJsonDeserialize(IOEnv.TRACE)

VARIABLES l, nbad
vars == <<l, nbad>>

W(x) == FromLimbs(x)

\* ---- cropped-view constructors
ViewJudge(e) ==
    LET pw == W(e.echo.pw)  ph == W(e.echo.ph)
        b == e.echo.box
        bl == W(b[1])  bt == W(b[2])  bw == W(b[3])  bh == W(b[4])
    IN  IF ~ViewDecisionOK(pw, ph, bl, bt, bw, bh, e.ret) THEN "decision"
        ELSE IF e.ret # "ok" THEN "ok"
        ELSE IF W(e.vw) # bw \/ W(e.vh) # bh THEN "size-of-accepted-view"
        ELSE IF "rows" \notin DOMAIN e THEN "rows-not-observable"
        ELSE LET sl == ToInt(bl)  st == ToInt(bt)  sw == ToInt(bw)  sh == ToInt(bh)
             IN  IF sw = 0 \/ sh = 0
                 THEN (IF \A i \in 1 .. Len(e.rows) : Len(e.rows[i]) = sw /\ Len(e.rows) <= sh THEN "ok" ELSE "rows-of-empty-view")
                 ELSE IF e.rows = ViewRows(sl, st, sw, sh) THEN "ok" ELSE "rows"

\* ---- image constructors
ImgJudge(e) ==
    LET c == e.echo
    IN  IF ~BufferDecisionOK(W(c.w), W(c.h), c.size, c.align, W(c.len), c.off, e.ret) THEN "decision"
        ELSE IF e.ret = "ok" /\ "use" \in DOMAIN e /\ e.use \notin {"ok"} THEN "accepted-image-unusable"
        ELSE IF e.ret = "ok" /\ "npix" \in DOMAIN e /\ Lt(W(e.npix), Mul(W(c.w), W(c.h))) THEN "accepted-image-too-short"
        ELSE "ok"

\* ---- Resizer::resize with a crop box
CropJudge(e) ==
    LET c == e.echo
    IN  IF CropDecisionOK(c.box, c.sw, c.sh, c.q, c.dw = 0 \/ c.dh = 0, e.ret) THEN "ok" ELSE "decision"

Judge(e) ==
    CASE e.op = "view_ctor" -> ViewJudge(e)
      [] e.op = "img_ctor" -> ImgJudge(e)
      [] e.op = "resize" -> CropJudge(e)
      [] OTHER -> "unknown-op"

Init == l = 1 /\ nbad = 0
Step == /\ l <= Len(Rec)
        /\ LET e == Rec[l]
               v == Judge(e)
           IN  IF v = "ok" THEN nbad' = nbad
               ELSE PrintT(<<"BAD", e.id, v>>) /\ nbad' = nbad + 1
        /\ l' = l + 1
Finish == /\ l = Len(Rec) + 1
          /\ PrintT(<<"DONE", Len(Rec), nbad>>)
          /\ l' = l + 1
          /\ UNCHANGED nbad
Next == Step \/ Finish
Spec == Init /\ [][Next]_vars
=============================================================================
