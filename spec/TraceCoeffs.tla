----------------------------- MODULE TraceCoeffs -----------------------------
(***************************************************************************)
(* Trace validation of the coefficient tables the resizer really uses      *)
(* (read-only hook fir_verif::coefficients / normalizer16 / normalizer32): *)
(* one record per (axis geometry, filter, kernel-size mode).               *)
(*   windows : every bound lies inside the support window of its sample    *)
(*             (Geometry!WindowOK), the window size is the specified one   *)
(*   sum1    : the f64 weights of every window sum to 1 (within 2^-45)     *)
(*   ideal   : every weight equals the documented kernel at the tap's      *)
(*             exact rational argument, normalised (within 2^-40):         *)
(*             Box/Bilinear/CatmullRom/Mitchell everywhere, Hamming/       *)
(*             Gaussian/Lanczos3 where all arguments are on the 1/64 grid  *)
(*             of KernelTable; only taps of weight zero may be trimmed     *)
(*   quant   : precision = FixedPoint!Precision16/32 of the largest weight *)
(*             and every integer coefficient = round-half-away(w * 2^p)    *)
(*   unity   : the integer coefficients of every window reproduce every    *)
(*             constant (FixedPoint!UnityBand)                     (C10)   *)
(*   nonneg  : a non-negative kernel gives non-negative coefficients (C18) *)
(*   clip    : sum |k| stays below 2.5 * 2^p (clip table range)     (C03)  *)
(***************************************************************************)
EXTENDS Kernels, TLC, Json, IOUtils, SequencesExt

Rec == ndJsonDeserialize(IOEnv.TRACE)
VARIABLES l, nbad
vars == <<l, nbad>>

Has(c, x) == x \in ToSet(c.checks)

\* ---------------------------------------------------------------- windows
WindowsOK(e) ==
    LET c == e.echo
        ad == c.adaptive = 1
    IN  /\ Len(e.bounds) = c.out
        \* the allocated window size covers every bound (its exact value is an allocation detail)
        /\ \A i \in 1 .. c.out : e.bounds[i][2] <= e.ws
        /\ \A i \in 1 .. c.out :
              WindowOK(c["in"], c.a, c.wq, c.Q, c.out, c.sn, c.sd, ad, i - 1, e.bounds[i][1], e.bounds[i][2])

\* ---------------------------------------------------------------- weights
RECURSIVE DySumFrom(_, _)
DySumFrom(ws, i) == IF i > Len(ws) THEN DyZero ELSE DyAdd(DyOf(ws[i]), DySumFrom(ws, i + 1))
Sum1OK(e) ==
    \A i \in 1 .. Len(e.w) :
        /\ \A j \in 1 .. Len(e.w[i]) : IsFinite(e.w[i][j])
        /\ DyWithin(DySub(DySumFrom(e.w[i], 1), DyFromInt(1)), 45, DyFromInt(1))

\* exact argument of tap x for sample i:  t = tn / td
TapTn(c, i, x) == (2 * x + 1) * c.Q * c.out - CenN(c.a, c.wq, c.out, i)
TapTd(c) == IF c.adaptive = 1 /\ c.wq > c.Q * c.out THEN 2 * c.wq ELSE 2 * c.Q * c.out

\* kernel numerator of tap x (signed Wide over a denominator common to the window)
TapNum(c, i, x) ==
    LET tn == Abs(TapTn(c, i, x))
        td == TapTd(c)
    IN  IF c.filter \in Rational THEN KNum(c.filter, tn, td) ELSE TabNum(c.filter, GridIndex(tn, td))
TapTie(c, i, x) == KTie(c.filter, Abs(TapTn(c, i, x)), TapTd(c))
TapOnGrid(c, i, x) == c.filter \in Rational \/ OnGrid(Abs(TapTn(c, i, x)), TapTd(c))

RECURSIVE SumNum(_, _, _, _)
SumNum(c, i, x, last) == IF x > last THEN SZero ELSE SAdd(TapNum(c, i, x), SumNum(c, i, x + 1, last))
RECURSIVE SumAbsNum(_, _, _, _)
SumAbsNum(c, i, x, last) == IF x > last THEN Zero ELSE Add(TapNum(c, i, x).mag, SumAbsNum(c, i, x + 1, last))

IdealWindowOK(e, i) ==
    LET c == e.echo
        ad == c.adaptive = 1
        lo == WinLo(c["in"], c.a, c.wq, c.Q, c.out, c.sn, c.sd, ad, i - 1)
        hi == WinHi(c["in"], c.a, c.wq, c.Q, c.out, c.sn, c.sd, ad, i - 1)
        start == e.bounds[i][1]
        size == e.bounds[i][2]
        anyTie == \E x \in lo .. hi - 1 : TapTie(c, i - 1, x)
        grid == \A x \in lo .. hi - 1 : TapOnGrid(c, i - 1, x)
    IN  IF anyTie \/ ~grid THEN TRUE          \* a sample centre on a kernel discontinuity / off the table's grid: no value claim
        ELSE
        LET sumN == SumNum(c, i - 1, start, start + size - 1)
            sumA == SumAbsNum(c, i - 1, start, start + size - 1)
        IN  \* only taps whose ideal weight is zero are left out
            /\ \A x \in lo .. hi - 1 : (x < start \/ x >= start + size) => Len(TapNum(c, i - 1, x).mag) = 0
            /\ Len(sumN.mag) > 0
            \* w_x * sum N = N_x  up to 2^-40 of the window's absolute mass
            /\ \A j \in 1 .. size :
                  LET w == DyOf(e.w[i][j])
                      nx == TapNum(c, i - 1, start + j - 1)
                      prod == Dy(IF sumN.neg THEN -w.s ELSE w.s, Mul(w.m, sumN.mag), w.e)
                      nd == Dy(IF nx.neg THEN -1 ELSE 1, nx.mag, 0)
                  IN  DyWithin(DySub(prod, nd), 40, Dy(1, sumA, 0))
IdealOK(e) == \A i \in 1 .. Len(e.bounds) : IdealWindowOK(e, i)

\* how many windows carried a value claim (reported, so that vacuity is visible)
IdealClaimed(e) ==
    LET c == e.echo
        ad == c.adaptive = 1
    IN  Cardinality({i \in 1 .. Len(e.bounds) :
          LET lo == WinLo(c["in"], c.a, c.wq, c.Q, c.out, c.sn, c.sd, ad, i - 1)
              hi == WinHi(c["in"], c.a, c.wq, c.Q, c.out, c.sn, c.sd, ad, i - 1)
          IN  /\ ~(\E x \in lo .. hi - 1 : TapTie(c, i - 1, x))
              /\ \A x \in lo .. hi - 1 : TapOnGrid(c, i - 1, x)})

\* ---------------------------------------------------------------- quantisation
\* largest weight over the whole table (padding zeros included => at least 0)
RECURSIVE DyMaxFrom(_, _, _)
DyMaxFrom(ws, i, best) == IF i > Len(ws) THEN best
                          ELSE DyMaxFrom(ws, i + 1, IF DyLt(best, DyOf(ws[i])) THEN DyOf(ws[i]) ELSE best)
RECURSIVE TableMax(_, _, _)
TableMax(w, i, best) == IF i > Len(w) THEN best ELSE TableMax(w, i + 1, DyMaxFrom(w[i], 1, best))

QuantOK(e) ==
    LET c == e.echo
        maxw == TableMax(e.w, 1, DyZero)
        p == IF c.norm = 16 THEN Precision16(maxw) ELSE Precision32(maxw)
    IN  /\ e.p = p
        /\ Len(e.ks) = Len(e.bounds)
        /\ \A i \in 1 .. Len(e.ks) :
              /\ e.ks[i].s = e.bounds[i][1]
              /\ Len(e.ks[i].k) = e.bounds[i][2]
              /\ \A j \in 1 .. Len(e.ks[i].k) :
                    LET r == RoundSigned(DyOf(e.w[i][j]), e.p)
                    IN  SFits31(r) /\ SToInt(r) = e.ks[i].k[j]

UnityOK(e) ==
    \A i \in 1 .. Len(e.ks) :
        IF e.echo.norm = 16 THEN UnityBand(SumSeq(e.ks[i].k, 1), e.p, 255)
        ELSE UnityBandW(SumSeqW(e.ks[i].k, 1), e.p)
\* the band argument presupposes that the accumulator holds the exact sum: precision within the cap for which
\* FixedLemmas!AccFits32/64 exclude an overflow, and (8-bit) the real coefficient mass within the i32 budget
AccOK(e) ==
    IF e.echo.norm = 16
    THEN /\ e.p <= 21
         /\ \A i \in 1 .. Len(e.ks) : SumAbs(e.ks[i].k, 1) <= (2147483647 - Pow2(e.p - 1)) \div 255
    ELSE e.p <= 45
NonNegOK(e) == \A i \in 1 .. Len(e.ks) : \A j \in 1 .. Len(e.ks[i].k) : e.ks[i].k[j] >= 0
ClipOK(e) == e.echo.norm = 16 => \A i \in 1 .. Len(e.ks) : 2 * SumAbs(e.ks[i].k, 1) < 5 * Pow2(e.p)

Judge(e) ==
    LET c == e.echo
    IN  IF e.ret # "ok" THEN "panic-or-error"
        ELSE IF Has(c, "windows") /\ ~WindowsOK(e) THEN "window-outside-support-or-source"
        ELSE IF Has(c, "sum1") /\ ~Sum1OK(e) THEN "weights-do-not-sum-to-one"
        ELSE IF Has(c, "ideal") /\ ~IdealOK(e) THEN "weight-is-not-the-documented-kernel"
        ELSE IF Has(c, "quant") /\ ~QuantOK(e) THEN "quantisation"
        ELSE IF Has(c, "unity") /\ ~AccOK(e) THEN "accumulator-can-overflow"
        ELSE IF Has(c, "unity") /\ ~UnityOK(e) THEN "coefficients-do-not-reproduce-constants"
        ELSE IF Has(c, "nonneg") /\ ~NonNegOK(e) THEN "negative-coefficient"
        ELSE IF Has(c, "clip") /\ ~ClipOK(e) THEN "clip-table-range"
        ELSE "ok"

Init == l = 1 /\ nbad = 0
Step == /\ l <= Len(Rec)
        /\ LET e == Rec[l]
               r == Judge(e)
           IN  /\ IF r = "ok" THEN nbad' = nbad
                  ELSE PrintT(<<"BAD", e.id, r>>) /\ nbad' = nbad + 1
               /\ (Has(e.echo, "ideal") /\ e.ret = "ok") => PrintT(<<"CLAIMED", e.id, IdealClaimed(e), Len(e.bounds)>>)
        /\ l' = l + 1
Finish == /\ l = Len(Rec) + 1
          /\ PrintT(<<"DONE", Len(Rec), nbad>>)
          /\ l' = l + 1
          /\ UNCHANGED nbad
Next == Step \/ Finish
=============================================================================
