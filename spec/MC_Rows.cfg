CONSTANT PMAX = 4
INIT RowsInit
NEXT Next
INVARIANT RowsInv
CHECK_DEADLOCK FALSE
