------------------------------ MODULE TraceConv ------------------------------
(***************************************************************************)
(* C01 at the pixel level: every recorded convolution pass of a real       *)
(* resize is recomputed from the recorded source pixels and the            *)
(* coefficient tables the resizer used (dumped through the read-only hook  *)
(* for the same geometry; TraceCoeffs validates those tables against the   *)
(* documented kernels), and every sample must lie within the rounding      *)
(* error of its pixel format:                                              *)
(*   u8 / u16 : the nearest integer of (sum k x) / 2^p, clamped  (half a   *)
(*              unit; either neighbour at an exact tie) -- p, k the        *)
(*              precision and integer coefficients of the table;           *)
(*   i32      : within 1/2 (+2^-10) of sum w x with the f64 weights w;     *)
(*   f32      : within 2^-22 |sum w x| + 2^-45 sum |w x|.                  *)
(* One record = one resize with its intermediate images: the nearest-      *)
(* neighbour intermediate of SuperSampling (ss), the premultiplied source  *)
(* (premul), the image between the two passes (tmp), the image before the  *)
(* divide (conv).  Pass order, offsets and the extent of the intermediate  *)
(* image come from the logged plan and are checked against the windows.    *)
(***************************************************************************)
EXTENDS Alpha, FixedPoint, TLC, Json, IOUtils

Rec == ndJsonDeserialize(IOEnv.TRACE)
VARIABLES l, nbad
vars == <<l, nbad>>

\* f32 ordered key -> exact dyadic value
KeyDy(k) ==
    LET bits == Abs(k)
        ex == bits \div 8388608
        fr == bits % 8388608
    IN  IF bits = 0 THEN DyZero
        ELSE IF ex = 0 THEN Dy(IF k < 0 THEN -1 ELSE 1, FromInt(fr), -149)
        ELSE Dy(IF k < 0 THEN -1 ELSE 1, FromInt(fr + 8388608), ex - 150)
KeyFinite(k) == Abs(k) \div 8388608 < 255

\* an image record: [w, h, v] with v the row-major component list
At(img, nc, x, y, c) == img.v[(y * img.w + x) * nc + c]

(***************************************************************************)
(* One output sample from a window: taps t = 1..n read component values    *)
(* xs[t]; coefficients from table co, window i (1-based).                  *)
(***************************************************************************)
IntSampleOK(out, xs, ks, p, max) ==
    LET q == Pow2(p - 1) + Dot(xs, ks, 1)
        f == q \div Pow2(p)
    IN  \/ out = Clip(f, max)
        \/ (q % Pow2(p) = 0 /\ out = Clip(f - 1, max))         \* exact tie: either neighbour
WideSampleOK(out, xs, ks, p) ==
    LET acc == SAdd(S(FALSE, Pow2W(p - 1)), DotW(xs, ks, 1))
        q == SShrFloor(acc, p)
        f == IF q.neg THEN 0 ELSE IF Lt(FromInt(65535), q.mag) THEN 65535 ELSE ToInt(q.mag)
        tie == LowBitsZero(acc.mag, p)
    IN  out = f \/ (tie /\ f > 0 /\ out = f - 1)

\* multiply a dyadic by an integer of up to 32 bits (two 16-bit halves)
DyMulInt2(d, n) ==
    IF n = -2147483647 - 1 THEN DyNeg(DyScale2(d, 31)) ELSE
    LET a == Abs(n)
        hi == a \div 65536
        lo == a % 65536
        r == DyAdd(DyScale2(DyMulInt(d, hi), 16), DyMulInt(d, lo))
    IN  IF n < 0 THEN DyNeg(r) ELSE r
\* exact sum w x for f64 weights and integer samples (i32)
RECURSIVE DotDyInt(_, _, _)
DotDyInt(xs, ws, i) == IF i > Len(ws) THEN DyZero ELSE DyAdd(DyMulInt2(DyOf(ws[i]), xs[i]), DotDyInt(xs, ws, i + 1))
\* the ideal value clamped to the i32 range (the kernels saturate), then | out - ideal | <= 1/2 + 2^-10
I32SampleOK(out, xs, ws) ==
    LET raw == DotDyInt(xs, ws, 1)
        hi == DyFromInt(2147483647)
        lo == DyNeg(DyScale2(DyFromInt(1), 31))
        ideal == IF DyLt(hi, raw) THEN hi ELSE IF DyLt(raw, lo) THEN lo ELSE raw
    IN  DyLe(DyScale2(DyAbs(DySub(DyMulInt2(DyFromInt(1), out), ideal)), 11), DyFromInt(1025))

RECURSIVE DotDyKey(_, _, _)
DotDyKey(xs, ws, i) == IF i > Len(ws) THEN DyZero ELSE DyAdd(DyMul(DyOf(ws[i]), KeyDy(xs[i])), DotDyKey(xs, ws, i + 1))
RECURSIVE DotAbsDyKey(_, _, _)
DotAbsDyKey(xs, ws, i) == IF i > Len(ws) THEN DyZero ELSE DyAdd(DyAbs(DyMul(DyOf(ws[i]), KeyDy(xs[i]))), DotAbsDyKey(xs, ws, i + 1))
F32SampleOK(out, xs, ws) ==
    IF \E t \in 1 .. Len(ws) : ~KeyFinite(xs[t]) THEN TRUE
    ELSE LET ideal == DotDyKey(xs, ws, 1)
             mass == DotAbsDyKey(xs, ws, 1)
             err == DyAbs(DySub(KeyDy(out), ideal))
         IN  /\ KeyFinite(out)
             /\ DyLe(err, DyAdd(DyScale2(DyAbs(ideal), -22), DyScale2(mass, -45)))

\* C03 (records with echo.clipidx: only this is judged, sample by sample, for custom kernels with large weights):
\* the index into the 1280-entry clip table of the portable 8-bit kernels (640 + (acc >> p)) stays inside it
ClipIdxOK(e, xs, co, i) ==
    (e.echo.comp = "u8" /\ "clipidx" \in DOMAIN e.echo) =>
        LET idx == ClipIndex(xs, co.ks[i].k, co.p) IN idx >= 0 /\ idx < 1280

SampleOK(e, out, xs, co, i) ==
    CASE e.echo.comp = "u8" -> IntSampleOK(out, xs, co.ks[i].k, co.p, 255)
      [] e.echo.comp = "u16" -> WideSampleOK(out, xs, co.ks[i].k, co.p)
      [] e.echo.comp = "i32" -> I32SampleOK(out, xs, co.w[i])
      [] OTHER -> F32SampleOK(out, xs, co.w[i])
Taps(e, co, i) == IF e.echo.comp \in {"u8", "u16"} THEN Len(co.ks[i].k) ELSE Len(co.w[i])

(***************************************************************************)
(* Passes.  Horizontal: dst(x, y) from source row (y + rowOff), window of  *)
(* sample x shifted left by colShift.  Vertical: dst(x, y) from source     *)
(* column (x + colOff), window of sample y shifted up by rowShift.         *)
(***************************************************************************)
HorizOK(e, src, dst, co, rowOff, colShift) ==
    LET nc == e.echo.nc
    IN  /\ Len(co.bounds) = dst.w
        /\ \A y \in 0 .. dst.h - 1 : \A x \in 0 .. dst.w - 1 : \A c \in 1 .. nc :
              LET start == co.bounds[x + 1][1] - colShift
                  n == Taps(e, co, x + 1)
                  xs == [t \in 1 .. n |-> At(src, nc, start + t - 1, y + rowOff, c)]
              IN  /\ start >= 0 /\ start + n <= src.w /\ y + rowOff < src.h
                  /\ IF "clipidx" \in DOMAIN e.echo THEN ClipIdxOK(e, xs, co, x + 1)
                     ELSE SampleOK(e, At(dst, nc, x, y, c), xs, co, x + 1)
VertOK(e, src, dst, co, colOff, rowShift) ==
    LET nc == e.echo.nc
    IN  /\ Len(co.bounds) = dst.h
        /\ \A y \in 0 .. dst.h - 1 : \A x \in 0 .. dst.w - 1 : \A c \in 1 .. nc :
              LET start == co.bounds[y + 1][1] - rowShift
                  n == Taps(e, co, y + 1)
                  xs == [t \in 1 .. n |-> At(src, nc, x + colOff, start + t - 1, c)]
              IN  /\ start >= 0 /\ start + n <= src.h /\ x + colOff < src.w
                  /\ IF "clipidx" \in DOMAIN e.echo THEN ClipIdxOK(e, xs, co, y + 1)
                     ELSE SampleOK(e, At(dst, nc, x, y, c), xs, co, y + 1)

\* nearest-neighbour intermediate of a two-step super-sampling
SsOK(e) ==
    LET c == e.echo
        nc == c.nc
        ss == e.ss
    IN  \A y \in 0 .. ss.h - 1 : \A x \in 0 .. ss.w - 1 :
          \E cx \in NearestSet(c.sw, c.box[1], c.box[3], c.Q, ss.w, x) :
          \E cy \in NearestSet(c.sh, c.box[2], c.box[4], c.Q, ss.h, y) :
             \A k \in 1 .. nc : At(ss, nc, x, y, k) = At(e.src, nc, cx, cy, k)

\* premultiplied image of the current source (integer types exact, floats: correctly rounded product)
PremulOK(e, cur) ==
    LET c == e.echo
        nc == c.nc
        pm == e.premul
    IN  /\ pm.w = cur.w /\ pm.h = cur.h
        /\ \A p \in 0 .. cur.w * cur.h - 1 :
              LET a == cur.v[p * nc + nc]
              IN  /\ pm.v[p * nc + nc] = a
                  /\ \A k \in 1 .. nc - 1 :
                        LET x == cur.v[p * nc + k]
                            o == pm.v[p * nc + k]
                        IN  CASE c.comp = "u8" -> o = MulExact(x, a, 255)
                              [] c.comp = "u16" -> o = Mul16Exact(x, a)
                              [] OTHER -> (~KeyFinite(x) \/ ~KeyFinite(a) \/ DyEq(KeyDy(o), DyRound24(DyMul(KeyDy(x), KeyDy(a)))))
\* final divide of the convolved image
DivideOK(e) ==
    LET c == e.echo
        nc == c.nc
        cv == e.conv
        d == e.dst
    IN  \A p \in 0 .. d.w * d.h - 1 :
          LET a == cv.v[p * nc + nc]
          IN  /\ d.v[p * nc + nc] = a \/ (c.comp = "f32" /\ a = 0)
              /\ \A k \in 1 .. nc - 1 :
                    LET x == cv.v[p * nc + k]
                        o == d.v[p * nc + k]
                    IN  CASE c.comp = "u8" -> o \in DivAllowed(x, a, 255)
                          [] c.comp = "u16" -> o \in Div16Allowed(x, a)
                          [] OTHER -> (~KeyFinite(x) \/ ~KeyFinite(a) \/
                                       (IF a = 0 THEN o = 0
                                        ELSE DyWithin(DySub(DyMul(KeyDy(o), KeyDy(a)), KeyDy(x)), 21, DyAbs(KeyDy(x)))))

Judge(e) ==
    LET c == e.echo
        \* the image the convolution reads, and the image it finally writes
        cur0 == IF "ss" \in DOMAIN e THEN e.ss ELSE e.src
        cur == IF "premul" \in DOMAIN e THEN e.premul ELSE cur0
        out == IF "conv" \in DOMAIN e THEN e.conv ELSE e.dst
        pl == e.plan           \* [h, v, hf, hl, vf, vl, off]  (0/1 flags)
        both == pl.h = 1 /\ pl.v = 1
    IN  IF e.ret # "ok" THEN "error-or-panic"
        ELSE IF "ss" \in DOMAIN e /\ ~SsOK(e) THEN "supersampling-intermediate-not-nearest"
        ELSE IF "premul" \in DOMAIN e /\ ~PremulOK(e, cur0) THEN "premultiply"
        ELSE IF both /\ "tmp" \notin DOMAIN e THEN "no-intermediate-image"
        ELSE IF both /\ c.u8 = 1 /\
                ~(/\ e.tmp.w = pl.hl - pl.hf /\ e.tmp.h = out.h
                  /\ VertOK(e, cur, e.tmp, e.vco, pl.hf, 0)) THEN "first-pass-vertical"
        ELSE IF both /\ c.u8 = 1 /\ ~HorizOK(e, e.tmp, out, e.hco, 0, pl.hf) THEN "second-pass-horizontal"
        ELSE IF both /\ c.u8 = 0 /\
                ~(/\ e.tmp.w = out.w /\ e.tmp.h = pl.vl - pl.vf
                  /\ HorizOK(e, cur, e.tmp, e.hco, pl.vf, 0)) THEN "first-pass-horizontal"
        ELSE IF both /\ c.u8 = 0 /\ ~VertOK(e, e.tmp, out, e.vco, 0, pl.vf) THEN "second-pass-vertical"
        ELSE IF pl.h = 1 /\ pl.v = 0 /\ ~HorizOK(e, cur, out, e.hco, pl.off, 0) THEN "single-pass-horizontal"
        ELSE IF pl.h = 0 /\ pl.v = 1 /\ ~VertOK(e, cur, out, e.vco, pl.off, 0) THEN "single-pass-vertical"
        ELSE IF "conv" \in DOMAIN e /\ ~DivideOK(e) THEN "divide"
        ELSE "ok"

Init == l = 1 /\ nbad = 0
Step == /\ l <= Len(Rec)
        /\ LET e == Rec[l]
               r == Judge(e)
           IN  IF r = "ok" THEN nbad' = nbad
               ELSE PrintT(<<"BAD", e.id, r>>) /\ nbad' = nbad + 1
        /\ l' = l + 1
Finish == /\ l = Len(Rec) + 1
          /\ PrintT(<<"DONE", Len(Rec), nbad>>)
          /\ l' = l + 1
          /\ UNCHANGED nbad
Next == Step \/ Finish
=============================================================================
