----------------------------- MODULE MC_FitCrop -----------------------------
(* C15 at the level of the definition: for all sizes up to NMAX and a set of
   centerings, the ideal fit-crop is inside the source, has the destination's
   aspect ratio, spans the source in one dimension, and splits the removed
   margin according to the clamped centering. *)
EXTENDS Geometry, TLC
CONSTANT NMAX
VARIABLES sw, sh, dw, dh, cx, cy
vars == <<sw, sh, dw, dh, cx, cy>>
Cent == {<<-1, 2>>, <<0, 1>>, <<1, 4>>, <<1, 2>>, <<1, 1>>, <<3, 2>>}
Init == /\ sw \in 1 .. NMAX /\ sh \in 1 .. NMAX /\ dw \in 1 .. NMAX /\ dh \in 1 .. NMAX
        /\ cx \in Cent /\ cy \in Cent
Next == UNCHANGED vars

Inv ==
    LET c1 == Clamp01(cx[1], cx[2])
        c2 == Clamp01(cy[1], cy[2])
        w == FitW(sw, sh, dw, dh)
        h == FitH(sw, sh, dw, dh)
        l == FitL(sw, sh, dw, dh, c1[1], c1[2])
        t == FitT(sw, sh, dw, dh, c2[1], c2[2])
    IN  /\ FracLe(<<0, 1>>, l) /\ FracLe(<<0, 1>>, t)
        /\ FracLe(<<1, NMAX * NMAX>>, w) /\ FracLe(<<1, NMAX * NMAX>>, h)       \* non-empty
        /\ FracLe(FracAdd(l, w), <<sw, 1>>)                                     \* inside
        /\ FracLe(FracAdd(t, h), <<sh, 1>>)
        /\ w[1] * h[2] * dh = h[1] * w[2] * dw                                  \* aspect = dw : dh
        /\ (FracEq(w, <<sw, 1>>) \/ FracEq(h, <<sh, 1>>))                       \* full in one dimension
        /\ (FitEqual(sw, sh, dw, dh) => (FracEq(w, <<sw, 1>>) /\ FracEq(h, <<sh, 1>>)))
        \* centering: c = 0 flush left/top, c = 1 flush right/bottom
        /\ (c1[1] = 0 => l[1] = 0)
        /\ (c1[1] = c1[2] => FracEq(FracAdd(l, w), <<sw, 1>>))
        /\ (c2[1] = 0 => t[1] = 0)
        /\ (c2[1] = c2[2] => FracEq(FracAdd(t, h), <<sh, 1>>))
=============================================================================
