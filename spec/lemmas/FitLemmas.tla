------------------------------ MODULE FitLemmas ------------------------------
(* C15 for ALL sizes 1..65535 (Apalache): the ideal fit-crop lies inside the source,
   spans it in one dimension and has the destination's aspect (cross-multiplied, no division).
   cn/cq is the clamped centering. *)
EXTENDS Integers
VARIABLES
    \* @type: Int;
    sw,
    \* @type: Int;
    sh,
    \* @type: Int;
    dw,
    \* @type: Int;
    dh,
    \* @type: Int;
    cn,
    \* @type: Int;
    cq
Sz == 1 .. 65535
Init == sw \in Sz /\ sh \in Sz /\ dw \in Sz /\ dh \in Sz /\ cq \in 1 .. 1024 /\ cn \in 0 .. 1024 /\ cn <= cq
Next == UNCHANGED <<sw, sh, dw, dh, cn, cq>>
Wider == sw * dh >= dw * sh
\* wider: crop width = dw*sh/dh (<= sw), left = (sw - cw) * cn/cq
\* inside  <=>  left + cw <= sw  <=>  (sw*dh - dw*sh) * cn <= (sw*dh - dw*sh) * cq
Inside == IF Wider
          THEN /\ dw * sh <= sw * dh
               /\ (sw * dh - dw * sh) * cn <= (sw * dh - dw * sh) * cq
               /\ (sw * dh - dw * sh) * cn >= 0
          ELSE /\ sw * dh <= sh * dw
               /\ (sh * dw - sw * dh) * cn <= (sh * dw - sw * dh) * cq
               /\ (sh * dw - sw * dh) * cn >= 0
=============================================================================
