------------------------------ MODULE GeomLemmas ------------------------------
(***************************************************************************)
(* C03 / C11 for ALL sizes below 2^16 (Apalache): one axis, source extent  *)
(* inSize, crop [a/4, (a+wq)/4) on the quarter-pixel grid inside the       *)
(* source, n destination samples, sample i.                                *)
(*   NearestInside : floor(centre) is an index inside the source           *)
(*   WindowInside  : the support window clamped to [0, inSize] is          *)
(*                   non-empty and contains the pixel under the centre     *)
(*   WindowInsideNoCrop : the same WITHOUT the crop-inside precondition -- *)
(*                   expected counter-example (what a negative or          *)
(*                   overflowing crop origin creates)                      *)
(***************************************************************************)
EXTENDS Integers
VARIABLES
    \* @type: Int;
    inSize,
    \* @type: Int;
    a,
    \* @type: Int;
    wq,
    \* @type: Int;
    n,
    \* @type: Int;
    i,
    \* @type: Int;
    sn,
    \* @type: Bool;
    adaptive
Q == 4
Init == /\ inSize \in 1 .. 65535 /\ n \in 1 .. 65535 /\ i \in 0 .. 65534 /\ i < n
        /\ a \in -262144 .. 262144 /\ wq \in 1 .. 262140
        /\ sn \in 1 .. 6          \* support = sn / 2  (1/2, 1, 3/2, 2, 5/2, 3)
        /\ adaptive \in BOOLEAN
Next == UNCHANGED <<inSize, a, wq, n, i, sn, adaptive>>

CropInside == a >= 0 /\ a + wq <= Q * inSize
CenN == 2 * n * a + (2 * i + 1) * wq
CenD == 2 * Q * n
Floor(x, d) == x \div d
Ceil(x, d) == -((-x) \div d)
Max(x, y) == IF x > y THEN x ELSE y
Min(x, y) == IF x < y THEN x ELSE y
\* common denominator 2 * Q * n * 2 (support denominator 2)
D == 2 * Q * n * 2
Cen == 2 * CenN
Rad == IF adaptive /\ wq > Q * n THEN 2 * sn * wq ELSE 2 * Q * n * sn
Lo == Max(0, Floor(Cen - Rad, D))
Hi == Min(inSize, Ceil(Cen + Rad, D))
CenPix == Floor(CenN, CenD)

NearestInside == CropInside => (CenPix >= 0 /\ CenPix < inSize)
WindowInside == CropInside => (0 <= Lo /\ Lo < Hi /\ Hi <= inSize /\ Lo <= CenPix /\ CenPix < Hi)
WindowInsideNoCrop == (0 <= Lo /\ Lo < Hi /\ Hi <= inSize)
=============================================================================
