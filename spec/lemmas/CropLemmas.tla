----------------------------- MODULE CropLemmas -----------------------------
(***************************************************************************)
(* C04 over the full u32 range (Apalache, unbounded integers):             *)
(*  CheckedEqDef : the overflow-free comparison a u32 implementation can   *)
(*                 compute decides exactly "the box lies inside";          *)
(*  WrapEqDef    : the wrapping sum does not (expected counter-example).   *)
(*  NeedNoWrap64 : width*height of two u32 never exceeds 64 bits, but      *)
(*                 times a pixel size of up to 16 bytes it can (expected   *)
(*                 counter-example for NeedFits64).                        *)
(***************************************************************************)
EXTENDS Integers

VARIABLES
    \* @type: Int;
    W,
    \* @type: Int;
    l,
    \* @type: Int;
    w,
    \* @type: Int;
    size

U32 == 0 .. 4294967295
M32 == 4294967296
M64 == 18446744073709551616

Init == W \in U32 /\ l \in U32 /\ w \in U32 /\ size \in 1 .. 16
Next == UNCHANGED <<W, l, w, size>>

Def == l + w <= W
Checked == l < W /\ w <= W - l
Wrapping == l < W /\ (l + w) % M32 <= W

\* for non-empty boxes (w > 0) inside implies l < W, so the two-step check is exact
CheckedEqDef == w > 0 => (Checked <=> Def)
WrapEqDef == w > 0 => (Wrapping <=> Def)
PixelsFit64 == W * w < M64
NeedFits64 == W * w * size < M64
=============================================================================
