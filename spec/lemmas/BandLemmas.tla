----------------------------- MODULE BandLemmas -----------------------------
(* C14 / C08: the band arithmetic of Views!Split for ALL sizes (Apalache).
   size is cut into parts bands; band i (1-based) has length step + [i <= rem]. *)
EXTENDS Integers

VARIABLES
    \* @type: Int;
    w,
    \* @type: Int;
    h,
    \* @type: Int;
    size,
    \* @type: Int;
    parts,
    \* @type: Int;
    i

Init == w \in 1 .. 4294967295 /\ h \in 1 .. 4294967295 /\ size \in 1 .. 4294967295 /\ parts \in 1 .. 4294967295 /\ parts <= size /\ i \in 1 .. 4294967295 /\ i <= parts
Next == UNCHANGED <<w, h, size, parts, i>>

step == size \div parts
rem == size % parts
Min(a, b) == IF a < b THEN a ELSE b
Off(k) == (k - 1) * step + Min(k - 1, rem)
Len(k) == step + (IF k <= rem THEN 1 ELSE 0)

BandsTile == /\ Off(1) = 0
             /\ Off(i) + Len(i) = Off(i + 1)      \* consecutive, no gap, no overlap
             /\ Len(i) >= 1                        \* never empty
             /\ Len(i) - step \in {0, 1}           \* sizes differ by at most one
             /\ Off(parts + 1) = size              \* exactly the band
             /\ Off(i) + Len(i) <= size

(* C08: the band count  extent / max(1, max(2^14 / area, extent / 256)),  area = extent * max(w, h).  *)
Max(a, b) == IF a > b THEN a ELSE b
Area == h * Max(h, w)
MinExt == Max(16384 \div Area, h \div 256)
MaxPartsH == h \div Max(MinExt, 1)
MaxPartsOK == Area > 0 /\ MaxPartsH >= 0 /\ MaxPartsH <= h
\* what u32 arithmetic computes: the area wraps modulo 2^32 and may become 0 (division by zero)
AreaU32 == (h * Max(h, w)) % 4294967296
MaxPartsU32 == AreaU32 > 0
=============================================================================
