----------------------------- MODULE BandLemmas -----------------------------
(* C14 / C08: the band arithmetic of Views!Split for ALL sizes (Apalache).
   size is cut into parts bands; band i (1-based) has length step + [i <= rem]. *)
EXTENDS Integers

VARIABLES
    \* @type: Int;
    size,
    \* @type: Int;
    parts,
    \* @type: Int;
    i

Init == size \in 1 .. 4294967295 /\ parts \in 1 .. 4294967295 /\ parts <= size /\ i \in 1 .. 4294967295 /\ i <= parts
Next == UNCHANGED <<size, parts, i>>

step == size \div parts
rem == size % parts
Min(a, b) == IF a < b THEN a ELSE b
Off(k) == (k - 1) * step + Min(k - 1, rem)
Len(k) == step + (IF k <= rem THEN 1 ELSE 0)

BandsTile == /\ Off(1) = 0
             /\ Off(i) + Len(i) = Off(i + 1)      \* consecutive, no gap, no overlap
             /\ Len(i) >= 1                        \* never empty
             /\ Len(i) - step \in {0, 1}           \* sizes differ by at most one
             /\ Off(parts + 1) = size              \* exactly the band
             /\ Off(i) + Len(i) <= size
=============================================================================
