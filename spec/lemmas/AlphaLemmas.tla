----------------------------- MODULE AlphaLemmas -----------------------------
(***************************************************************************)
(* C06 for ALL 2^32 16-bit (colour, alpha) pairs, at the level of the      *)
(* specified algorithms (Apalache, unbounded integers):                    *)
(*   Mul16Exact   mul_div_65535 bit trick = round(c*a/65535)               *)
(*   Div16Faithful  reciprocal-table divide (33 fractional bits, ideal     *)
(*                arithmetic) is in {floor, ceil}(c*65535/a), saturated    *)
(*   Div16FitsU64 the product c*recip + 2^32 fits in 64 bits  -- FALSE for *)
(*                alpha = 1, colour >= 32769 (expected counter-example:    *)
(*                the overflow of the portable code on the pinned tree)    *)
(*   Div16SatFix  with a saturating product the result is still faithful   *)
(*   Mul8Exact / Div8Faithful: the 8-bit versions, for completeness        *)
(***************************************************************************)
EXTENDS Integers
VARIABLES
    \* @type: Int;
    c,
    \* @type: Int;
    a
Init == c \in 0 .. 65535 /\ a \in 0 .. 65535
Next == UNCHANGED <<c, a>>

Min(x, y) == IF x < y THEN x ELSE y
P33 == 8589934592            \* 2^33
P34 == 17179869184
P32 == 4294967296
P64 == 18446744073709551616

Mul16Alg == LET t == c * a + 32768 IN ((t \div 65536) + t) \div 65536
Mul16Exact == Mul16Alg = (2 * c * a + 65535) \div 131070

Recip16 == ((65535 * P34) \div a + 1) \div 2
Div16Ideal == Min((c * Recip16 + P32) \div P33, 65535)
Floor == (c * 65535) \div a
Ceil == IF (c * 65535) % a = 0 THEN Floor ELSE Floor + 1
Div16Faithful == a > 0 => (Div16Ideal = Min(Floor, 65535) \/ Div16Ideal = Min(Ceil, 65535))
Div16FitsU64 == a > 0 => c * Recip16 + P32 < P64
\* what a saturating (or 128-bit) product computes
Div16Sat == Min((Min(c * Recip16, P64 - 1 - P32) + P32) \div P33, 65535)
Div16SatFix == a > 0 => Div16Sat = Div16Ideal

Mul8Alg == LET t == c * a + 128 IN ((t \div 256) + t) \div 256
Mul8Exact == (c <= 255 /\ a <= 255) => Mul8Alg = (2 * c * a + 255) \div 510
=============================================================================
