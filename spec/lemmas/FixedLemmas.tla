------------------------------ MODULE FixedLemmas ------------------------------
(***************************************************************************)
(* Full-depth versions of the MC_FixedPoint facts (Apalache).              *)
(* P = 2^p is a variable ranging over the powers of two the normalisers    *)
(* can emit; S = sum of the quantised coefficients of a window; v = a      *)
(* component value; sample(v) = (P/2 + v*S) div P  clipped to 0..max.      *)
(*  UniformIff8/16 : inside the band every constant v is reproduced;      *)
(*                   outside it max or max-1 is not (exact iff)            *)
(*  MonotoneStep   : a non-negative coefficient k never decreases the      *)
(*                   result when its sample grows by one                   *)
(*  RangeKept      : non-negative coefficients inside the band keep the    *)
(*                   result between lo and hi of the window (two-point     *)
(*                   abstraction: part kLo of the sum sees lo, the rest hi) *)
(*  ClipIndexOK    : sum|k| * 2 < 5 P keeps (acc div P) inside -640..639   *)
(*  ClipIndexBad   : without that bound it does not (expected counter-ex.) *)
(*  AccFits32/64   : with the documented head-room (sum|k| < 4 P) and the  *)
(*                   precision caps p <= 21 / p <= 45 the i32 / i64        *)
(*                   accumulators cannot overflow for any samples          *)
(*  AccBad32       : one more bit of precision and they can (expected      *)
(*                   counter-example) -- why Precision16 stops at 21       *)
(***************************************************************************)
EXTENDS Integers
VARIABLES
    \* @type: Int;
    P,
    \* @type: Int;
    S,
    \* @type: Int;
    v,
    \* @type: Int;
    k,
    \* @type: Int;
    acc,
    \* @type: Int;
    lo,
    \* @type: Int;
    hi,
    \* @type: Int;
    kLo
Pows8 == {16, 32, 64, 128, 256, 512, 1024, 2048, 4096, 8192, 16384, 32768, 65536, 131072, 262144, 524288, 1048576, 2097152}
Pows16 == Pows8 \cup {4194304, 8388608, 16777216, 33554432, 67108864, 134217728, 268435456, 536870912, 1073741824, 2147483648,
                     4294967296, 8589934592, 17179869184, 34359738368, 68719476736, 137438953472, 274877906944, 549755813888,
                     1099511627776, 2199023255552, 4398046511104, 8796093022208, 17592186044416, 35184372088832}
Init == /\ P \in Pows16 /\ S \in 0 .. 140737488355328 /\ v \in 0 .. 65535 /\ k \in 0 .. 4294967296
        /\ acc \in -36893488147419103232 .. 36893488147419103232 /\ lo \in 0 .. 65535 /\ hi \in 0 .. 65535 /\ lo <= hi
        /\ kLo \in 0 .. 140737488355328 /\ kLo <= S
Next == UNCHANGED <<P, S, v, k, acc, lo, hi, kLo>>

Abs(x) == IF x < 0 THEN -x ELSE x
Clip(x, max) == IF x < 0 THEN 0 ELSE IF x > max THEN max ELSE x
Sample(val, max) == Clip((P \div 2 + val * S) \div P, max)
Band(max) == IF S <= P THEN (P - S) * max <= P \div 2 ELSE (S - P) * (max - 1) < P \div 2

UniformIff8 == (P \in Pows8 /\ v <= 255) =>
                  /\ (Band(255) => Sample(v, 255) = v)
                  /\ (~Band(255) => Sample(255, 255) # 255 \/ Sample(254, 255) # 254)
UniformIff16 == /\ (Band(65535) => Sample(v, 65535) = v)
                /\ (~Band(65535) => Sample(65535, 65535) # 65535 \/ Sample(65534, 65535) # 65534)
\* one more unit on a sample with coefficient k >= 0
MonotoneStep == Clip((acc + k) \div P, 65535) >= Clip(acc \div P, 65535)
\* window split into the part that sees lo (coefficient mass kLo) and the part that sees hi (S - kLo)
RangeKept == Band(65535) =>
               LET r == Clip((P \div 2 + lo * kLo + hi * (S - kLo)) \div P, 65535)
               IN  lo <= r /\ r <= hi
\* 8-bit clip table: acc = P/2 + sum k x with |sum k x| <= 255 * sumAbs ; here S plays sum |k|
ClipIndexOK == (P \in Pows8 /\ 2 * S < 5 * P /\ Abs(acc - P \div 2) <= 255 * S) => (acc \div P >= -640 /\ acc \div P <= 639)
\* a normalised window: positive mass pos, negative mass neg, pos - neg = P, pos + neg = S
ClipIndexNorm == (P \in Pows8 /\ S < 4 * P /\ kLo >= 0 /\ (S - kLo) - kLo = P
                  /\ acc - P \div 2 <= 255 * (S - kLo) /\ acc - P \div 2 >= -255 * kLo) => (acc \div P >= -640 /\ acc \div P <= 639)
ClipIndexBad == (P \in Pows8 /\ S < 4 * P /\ Abs(acc - P \div 2) <= 255 * S) => (acc \div P >= -640 /\ acc \div P <= 639)
\* accumulators: acc = P/2 + sum k x, |sum k x| <= max * sum|k| ; S plays sum |k|
AccFits32 == (P \in Pows8 /\ S < 4 * P /\ Abs(acc - P \div 2) <= 255 * S) => (acc >= -2147483648 /\ acc <= 2147483647)
AccFits64 == (P \in Pows16 /\ S < 4 * P /\ Abs(acc - P \div 2) <= 65535 * S)
                => (acc >= -9223372036854775808 /\ acc <= 9223372036854775807)
AccBad32 == (P = 4194304 /\ S < 4 * P /\ Abs(acc - P \div 2) <= 255 * S) => (acc >= -2147483648 /\ acc <= 2147483647)
=============================================================================
