CONSTANTS MAXV = 7
  PSET = {3, 4}
INIT Init
NEXT Next
INVARIANT Inv
INVARIANT ClipInTable
CHECK_DEADLOCK FALSE
