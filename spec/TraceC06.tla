------------------------------ MODULE TraceC06 ------------------------------
(***************************************************************************)
(* Trace validation for C06 (alpha multiply / divide).                     *)
(*  alpha_table : projected exhaustive 8-bit tables (every pair, every     *)
(*                lane position) -- every entry must be what Alpha allows, *)
(*                the same in every lane, alpha untouched;                 *)
(*  mul/div(...) : recorded images for 16-bit (Wide) and float (exact      *)
(*                dyadic) types, unsupported types, size mismatches;       *)
(*  groups       : the same input through different entry points and       *)
(*                back-ends must give the same image (memo of the group's  *)
(*                first observation; +-1 for 16-bit divide across          *)
(*                back-ends).                                              *)
(***************************************************************************)
EXTENDS Alpha, TLC, Json, IOUtils

Rec == ndJsonDeserialize(IOEnv.TRACE)
VARIABLES l, nbad, grp, ref
vars == <<l, nbad, grp, ref>>

\* ---------------------------------------------------------------- 8-bit tables
TableJudge(e) ==
    LET isMul == e.echo.what = "mul"
    IN  IF e.ret # "ok" THEN "panic-or-error"
        ELSE IF Len(e.multi) # 0 THEN "lanes-disagree"
        ELSE IF Len(e.amulti) # 0 THEN "alpha-changed"
        ELSE IF \E a \in 0 .. 255 : e.atab[a + 1] # a THEN "alpha-changed"
        ELSE IF isMul /\ \E i \in 0 .. 65535 : e.tab[i + 1] # MulExact(i \div 256, i % 256, 255) THEN "multiply-not-exact"
        ELSE IF ~isMul /\ \E i \in 0 .. 65535 : e.tab[i + 1] \notin DivAllowed(i \div 256, i % 256, 255) THEN "divide-not-faithful"
        ELSE "ok"

\* ---------------------------------------------------------------- recorded images
NPix(e) == Len(e.src) \div e.echo.nc

IntPixelsOK(e, isMul) ==
    LET nc == e.echo.nc
        max == e.echo.max
    IN  \A p \in 0 .. NPix(e) - 1 :
          LET a == e.src[p * nc + nc]
          IN  /\ e.dst[p * nc + nc] = a
              /\ \A k \in 1 .. nc - 1 :
                   LET c == e.src[p * nc + k]
                       o == e.dst[p * nc + k]
                   IN  IF max = 255
                       THEN (IF isMul THEN o = MulExact(c, a, 255) ELSE o \in DivAllowed(c, a, 255))
                       ELSE (IF isMul THEN o = Mul16Exact(c, a) ELSE o \in Div16Allowed(c, a))

\* float component i of the parallel arrays
FD(arr, i) == Dy(arr.s[i], FromInt(arr.m[i]), arr.e[i])
FIsFinite(arr, i) == arr.s[i] \in {-1, 0, 1}

FloatPixelsOK(e, isMul) ==
    LET nc == e.echo.nc
        n == Len(e.srcd.s) \div nc
    IN  \A p \in 0 .. n - 1 :
          LET ai == p * nc + nc
              a == FD(e.srcd, ai)
          IN  \* alpha itself is copied bit for bit (sign of zero included: compare the ordered keys)
              /\ e.dst[ai] = e.src[ai]
              /\ \A k \in 1 .. nc - 1 :
                   LET i == p * nc + k
                       c == FD(e.srcd, i)
                       o == FD(e.dstd, i)
                   IN  IF ~(FIsFinite(e.srcd, i) /\ FIsFinite(e.srcd, ai))
                       THEN TRUE                         \* non-finite inputs: no numeric claim
                       ELSE IF ~FIsFinite(e.dstd, i) THEN FALSE
                       ELSE IF isMul
                       THEN DyEq(o, DyRound24(DyMul(c, a)))           \* the correctly rounded f32 product
                       ELSE IF a.s = 0 THEN o.s = 0                   \* alpha 0 => colour 0
                       ELSE DyWithin(DySub(DyMul(o, a), c), 22, DyAbs(c))   \* |o*a - c| <= 2^-22 |c|

ImgJudge(e) ==
    LET c == e.echo
        isMul == c.what = "mul"
    IN  IF c.expect = "unsupported"
        THEN (IF e.ret \in {"err:ImageError(UnsupportedPixelType)", "err:UnsupportedPixelType"} /\ e.dst = e.dst0
              THEN "ok" ELSE "unsupported-type-not-rejected")
        ELSE IF c.expect = "size"
        THEN (IF e.ret = "err:SizeIsDifferent" /\ e.dst = e.dst0 THEN "ok" ELSE "size-mismatch-not-rejected")
        ELSE IF e.ret # "ok" THEN "panic-or-error"
        ELSE IF c.comp = "f32"
        THEN (IF FloatPixelsOK(e, isMul) THEN "ok" ELSE IF isMul THEN "float-multiply" ELSE "float-divide")
        ELSE (IF IntPixelsOK(e, isMul) THEN "ok" ELSE IF isMul THEN "multiply-not-exact" ELSE "divide-not-faithful")

\* ---------------------------------------------------------------- group memo
\* tolerance class of a group: "exact" or "pm1" (16-bit divide across back-ends)
\*                            "ulp2" (float divide: c/a and c*(1/a) are both within the statement; keys are
\*                            ordered f32 bit patterns, so a key distance is a distance in ulps)
SameAs(e, r) ==
    IF e.echo.tol = "pm1"
    THEN Len(e.dst) = Len(r) /\ \A i \in 1 .. Len(r) : Abs(e.dst[i] - r[i]) <= 1
    ELSE IF e.echo.tol = "ulp2"
    THEN Len(e.dst) = Len(r) /\ \A i \in 1 .. Len(r) : Abs(e.dst[i] - r[i]) <= 2
    ELSE e.dst = r

Cur(e) == IF "tab" \in DOMAIN e THEN e.tab ELSE IF "dst" \in DOMAIN e THEN e.dst ELSE << >>
Judge(e) ==
    LET own == IF e.op = "alpha_table" THEN TableJudge(e) ELSE ImgJudge(e)
    IN  IF own # "ok" THEN own
        ELSE IF e.echo.grp = grp /\ ~(IF e.op = "alpha_table" THEN Cur(e) = ref ELSE SameAs(e, ref)) THEN "variants-disagree"
        ELSE "ok"

Init == l = 1 /\ nbad = 0 /\ grp = -1 /\ ref = << >>
Step == /\ l <= Len(Rec)
        /\ LET e == Rec[l]
               r == Judge(e)
           IN  /\ IF r = "ok" THEN nbad' = nbad
                  ELSE PrintT(<<"BAD", e.id, r>>) /\ nbad' = nbad + 1
               /\ IF e.echo.grp # grp
                  THEN grp' = e.echo.grp /\ ref' = Cur(e)
                  ELSE UNCHANGED <<grp, ref>>
        /\ l' = l + 1
Finish == /\ l = Len(Rec) + 1
          /\ PrintT(<<"DONE", Len(Rec), nbad>>)
          /\ l' = l + 1
          /\ UNCHANGED <<nbad, grp, ref>>
Next == Step \/ Finish
=============================================================================
