----------------------------- MODULE MC_Options -----------------------------
(***************************************************************************)
(* All builder sequences up to length N over a small alphabet.  Checks     *)
(* LastWins / Fold = incremental state, and prints every sequence as one   *)
(* REPLAY line: the behaviours of the specification that the harness then  *)
(* executes against the real builder (spec -> implementation).             *)
(***************************************************************************)
EXTENDS Options, TLC, Json

CONSTANT N

Alphabet ==
    { [op |-> "alg", alg |-> "nearest", filter |-> "Box", m |-> 0],
      [op |-> "alg", alg |-> "conv", filter |-> "Bilinear", m |-> 0],
      [op |-> "alg", alg |-> "interp", filter |-> "CatmullRom", m |-> 0],
      [op |-> "alg", alg |-> "ss", filter |-> "Box", m |-> 2],
      [op |-> "crop", v |-> <<4, 4, 16, 12>>],
      [op |-> "crop", v |-> <<2, 0, 9, 7>>],
      [op |-> "fit", v |-> << >>],
      [op |-> "fit", v |-> << <<0, 1>>, <<1, 1>> >>],
      [op |-> "fit", v |-> << <<1, 4>>, <<3, 4>> >>],
      [op |-> "alpha", v |-> TRUE],
      [op |-> "alpha", v |-> FALSE],
      [op |-> "new"] }

VARIABLES opts, hist
vars == <<opts, hist>>

Init == opts = Default /\ hist = << >>
Next == /\ Len(hist) < N
        /\ \E s \in Alphabet : opts' = Apply(opts, s) /\ hist' = Append(hist, s)
Spec == Init /\ [][Next]_vars

Inv == /\ opts = Fold(hist)
       /\ LastWins(hist, opts)
       /\ opts.crop[1] \in {"none", "crop", "fit"}
\* one line per behaviour
Emit == PrintT(<<"REPLAY", ToJson(hist)>>)
=============================================================================
