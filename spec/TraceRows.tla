------------------------------ MODULE TraceRows ------------------------------
(***************************************************************************)
(* Trace validation of the ImageView / ImageViewMut row iterators (the     *)
(* mechanism behind C13): for every container kind (typed image, typed     *)
(* reference, cropped, mutable cropped, nested crops) every recorded call  *)
(* of iter_rows / iter_2_rows / iter_4_rows / iter_rows_with_step /        *)
(* iter_rows_mut / iter_N_rows_mut must have produced exactly the rows     *)
(* Views!RowsFrom / RowGroups / RowsStep name, each exactly `w` long.      *)
(***************************************************************************)
EXTENDS Views, TLC, Json, IOUtils

Rec == ndJsonDeserialize(IOEnv.TRACE)
VARIABLES l, nbad
vars == <<l, nbad>>

Expected(v, c) ==
    CASE c.m \in {"iter_rows", "iter_rows_mut"} -> RowsFrom(v, c.start)
      [] c.m = "iter_2_rows" -> RowGroups(v, c.start, c.max, 2)
      [] c.m = "iter_4_rows" -> RowGroups(v, c.start, c.max, 4)
      [] c.m = "iter_2_rows_mut" -> RowGroups(v, 0, v.h, 2)
      [] c.m = "iter_4_rows_mut" -> RowGroups(v, 0, v.h, 4)
      [] c.m = "step" -> RowsStep(v, c.y0n, c.stepn, c.q, c.max)

\* a view of width 0 yields rows without pixels (or no rows at all)
SameRows(obs, exp, v) ==
    IF v.w = 0 THEN TRUE
    ELSE obs = exp

Judge(e) ==
    LET c == e.echo
        v == View(c.al, c.at, c.w, c.h)
    IN  IF e.ret # "ok" THEN "panic-or-crash"
        ELSE IF Len(e.obs) # Len(c.calls) THEN "missing-observation"
        ELSE IF \E i \in 1 .. Len(c.calls) : ~SameRows(e.obs[i], Expected(v, c.calls[i]), v) THEN "rows"
        ELSE "ok"

\* which call failed (for the report)
FirstBad(e) ==
    LET c == e.echo
        v == View(c.al, c.at, c.w, c.h)
        bad == {i \in 1 .. Len(c.calls) : e.ret = "ok" /\ Len(e.obs) = Len(c.calls) /\ ~SameRows(e.obs[i], Expected(v, c.calls[i]), v)}
    IN  IF bad = {} THEN "-" ELSE c.calls[CHOOSE i \in bad : \A j \in bad : i <= j].m

Init == l = 1 /\ nbad = 0
Step == /\ l <= Len(Rec)
        /\ LET e == Rec[l]
               r == Judge(e)
           IN  IF r = "ok" THEN nbad' = nbad
               ELSE PrintT(<<"BAD", e.id, r \o ":" \o FirstBad(e)>>) /\ nbad' = nbad + 1
        /\ l' = l + 1
Finish == /\ l = Len(Rec) + 1
          /\ PrintT(<<"DONE", Len(Rec), nbad>>)
          /\ l' = l + 1
          /\ UNCHANGED nbad
Next == Step \/ Finish
=============================================================================
