------------------------------- MODULE Wide -------------------------------
(***************************************************************************)
(* Exact arithmetic beyond TLC's 32-bit integers, in pure TLA+.            *)
(*                                                                         *)
(* A natural number is a little-endian sequence of digits in base 2^14     *)
(* without trailing zero digits (zero is the empty sequence).  Digit       *)
(* products stay below 2^28 and every intermediate value below 2^31, so    *)
(* TLC never overflows.  Signed numbers are records [neg, mag].            *)
(*                                                                         *)
(* The module is itself model-checked against native arithmetic in         *)
(* MC_Wide before anything relies on it.                                   *)
(***************************************************************************)
EXTENDS Naturals, Integers, Sequences

B == 16384            \* 2^14
BBITS == 14

RECURSIVE Pow2(_)
Pow2(n) == IF n = 0 THEN 1 ELSE 2 * Pow2(n - 1)      \* n <= 30

IsWide(a) == /\ a \in Seq(0 .. B - 1)
             /\ (Len(a) > 0 => a[Len(a)] # 0)

Zero == << >>

RECURSIVE Norm(_)
Norm(a) == IF Len(a) = 0 THEN a
           ELSE IF a[Len(a)] = 0 THEN Norm(SubSeq(a, 1, Len(a) - 1)) ELSE a

RECURSIVE FromInt(_)
FromInt(n) == IF n = 0 THEN << >> ELSE << n % B >> \o FromInt(n \div B)   \* 0 <= n < 2^31

\* value if it fits in 31 bits (at most 3 digits, top digit < 8)
Fits31(a) == Len(a) <= 2 \/ (Len(a) = 3 /\ a[3] < 8)
ToInt(a) == (IF Len(a) >= 1 THEN a[1] ELSE 0)
          + (IF Len(a) >= 2 THEN a[2] * B ELSE 0)
          + (IF Len(a) >= 3 THEN a[3] * B * B ELSE 0)

Dig(a, i) == IF i >= 1 /\ i <= Len(a) THEN a[i] ELSE 0

RECURSIVE AddC(_, _, _, _)
AddC(a, b, i, c) ==
    IF i > Len(a) /\ i > Len(b)
    THEN (IF c = 0 THEN << >> ELSE << c >>)
    ELSE LET x == Dig(a, i) + Dig(b, i) + c
         IN  << x % B >> \o AddC(a, b, i + 1, x \div B)
Add(a, b) == AddC(a, b, 1, 0)

RECURSIVE CmpFrom(_, _, _)
CmpFrom(a, b, i) ==      \* compare digits i, i-1, ..., 1 (equal lengths assumed above i)
    IF i = 0 THEN 0
    ELSE IF a[i] < b[i] THEN -1
    ELSE IF a[i] > b[i] THEN 1
    ELSE CmpFrom(a, b, i - 1)
Cmp(a, b) == IF Len(a) < Len(b) THEN -1
             ELSE IF Len(a) > Len(b) THEN 1
             ELSE CmpFrom(a, b, Len(a))
Lt(a, b) == Cmp(a, b) = -1
Le(a, b) == Cmp(a, b) <= 0
Eq(a, b) == a = b

RECURSIVE SubC(_, _, _, _)
SubC(a, b, i, br) ==      \* a >= b required
    IF i > Len(a) THEN << >>
    ELSE LET x == a[i] - Dig(b, i) - br
         IN  IF x < 0 THEN << x + B >> \o SubC(a, b, i + 1, 1)
                      ELSE << x >> \o SubC(a, b, i + 1, 0)
Sub(a, b) == Norm(SubC(a, b, 1, 0))

RECURSIVE MulSmallC(_, _, _, _)
MulSmallC(a, m, i, c) ==   \* 0 <= m < 2^16 : a[i]*m + c < 2^30 + 2^17
    IF i > Len(a) THEN FromInt(c)
    ELSE LET x == a[i] * m + c
         IN  << x % B >> \o MulSmallC(a, m, i + 1, x \div B)
MulSmall(a, m) == IF m = 0 THEN << >> ELSE MulSmallC(a, m, 1, 0)

\* multiply by B^k
ShiftDigits(a, k) == IF Len(a) = 0 THEN a ELSE [i \in 1 .. k |-> 0] \o a

RECURSIVE MulAcc(_, _, _)
MulAcc(a, b, j) ==         \* sum over digits j..Len(b) of a*b[j]*B^(j-1)
    IF j > Len(b) THEN << >>
    ELSE Add(ShiftDigits(MulSmall(a, b[j]), j - 1), MulAcc(a, b, j + 1))
Mul(a, b) == MulAcc(a, b, 1)

\* a * 2^k
Shl(a, k) == ShiftDigits(MulSmall(a, Pow2(k % BBITS)), k \div BBITS)

\* floor(a / 2^r) for 0 <= r < 14, digit-wise
RECURSIVE ShrSmallFrom(_, _, _)
ShrSmallFrom(a, r, i) ==
    IF i > Len(a) THEN << >>
    ELSE << (a[i] \div Pow2(r)) + (Dig(a, i + 1) % Pow2(r)) * Pow2(BBITS - r) >>
         \o ShrSmallFrom(a, r, i + 1)
DropDigits(a, k) == IF k >= Len(a) THEN << >> ELSE SubSeq(a, k + 1, Len(a))
Shr(a, k) == LET d == DropDigits(a, k \div BBITS)
                 r == k % BBITS
             IN  IF r = 0 THEN d ELSE Norm(ShrSmallFrom(d, r, 1))

\* TRUE iff the low k bits of a are all zero
RECURSIVE AllZeroUpTo(_, _)
AllZeroUpTo(a, n) == n = 0 \/ (Dig(a, n) = 0 /\ AllZeroUpTo(a, n - 1))
LowBitsZero(a, k) == /\ AllZeroUpTo(a, k \div BBITS)
                     /\ Dig(a, k \div BBITS + 1) % Pow2(k % BBITS) = 0

\* bit k (0-based) of a
Bit(a, k) == (Dig(a, k \div BBITS + 1) \div Pow2(k % BBITS)) % 2

\* number of significant bits
RECURSIVE BitLenSmall(_)
BitLenSmall(n) == IF n = 0 THEN 0 ELSE 1 + BitLenSmall(n \div 2)
BitLen(a) == IF Len(a) = 0 THEN 0 ELSE (Len(a) - 1) * BBITS + BitLenSmall(a[Len(a)])

\* division by a small number 1 <= d < 2^16 : quotient and remainder
RECURSIVE DivSmallFrom(_, _, _, _)
DivSmallFrom(a, d, i, rem) ==   \* from the top digit down; returns <<digits (big-endian order reversed later), rem>>
    IF i = 0 THEN << << >>, rem >>
    ELSE LET cur == rem * B + a[i]          \* rem < d < 2^16 => cur < 2^30
             rest == DivSmallFrom(a, d, i - 1, cur % d)
         IN  << rest[1] \o << cur \div d >>, rest[2] >>
DivSmall(a, d) == LET r == DivSmallFrom(a, d, Len(a), 0) IN Norm(r[1])
ModSmall(a, d) == DivSmallFrom(a, d, Len(a), 0)[2]

\* from little-endian 16-bit limbs (the harness' encoding of u32 / u64 / usize)
RECURSIVE FromLimbsFrom(_, _)
FromLimbsFrom(l, i) == IF i > Len(l) THEN << >>
                       ELSE Add(FromInt(l[i]), Shl(FromLimbsFrom(l, i + 1), 16))
FromLimbs(l) == FromLimbsFrom(l, 1)

Max(a, b) == IF Lt(a, b) THEN b ELSE a
Min(a, b) == IF Lt(a, b) THEN a ELSE b

(***************************************************************************)
(* Signed numbers.                                                         *)
(***************************************************************************)
S(neg, mag) == [neg |-> neg /\ Len(mag) > 0, mag |-> mag]
SZero == S(FALSE, Zero)
SFromInt(n) == IF n < 0 THEN S(TRUE, FromInt(-n)) ELSE S(FALSE, FromInt(n))   \* |n| < 2^31
SNeg(x) == S(~x.neg, x.mag)
SAdd(x, y) ==
    IF x.neg = y.neg THEN S(x.neg, Add(x.mag, y.mag))
    ELSE IF Le(y.mag, x.mag) THEN S(x.neg, Sub(x.mag, y.mag))
    ELSE S(y.neg, Sub(y.mag, x.mag))
SSub(x, y) == SAdd(x, SNeg(y))
SMulSmall(x, m) == IF m < 0 THEN S(~x.neg, MulSmall(x.mag, -m)) ELSE S(x.neg, MulSmall(x.mag, m))
SMul(x, y) == S(x.neg # y.neg, Mul(x.mag, y.mag))
SCmp(x, y) ==
    IF x.neg /\ ~y.neg THEN -1
    ELSE IF ~x.neg /\ y.neg THEN 1
    ELSE IF x.neg THEN Cmp(y.mag, x.mag) ELSE Cmp(x.mag, y.mag)
SLe(x, y) == SCmp(x, y) <= 0
SLt(x, y) == SCmp(x, y) < 0
SAbs(x) == S(FALSE, x.mag)
SShl(x, k) == S(x.neg, Shl(x.mag, k))
\* floor(x / 2^k) (towards minus infinity)
SShrFloor(x, k) ==
    IF ~x.neg THEN S(FALSE, Shr(x.mag, k))
    ELSE IF LowBitsZero(x.mag, k) THEN S(TRUE, Shr(x.mag, k))
    ELSE S(TRUE, Add(Shr(x.mag, k), FromInt(1)))
SFits31(x) == Fits31(x.mag)
SToInt(x) == IF x.neg THEN -ToInt(x.mag) ELSE ToInt(x.mag)

(***************************************************************************)
(* Dyadic rationals  s * m * 2^e  (the harness' exact encoding of an f64:  *)
(* record [s, m, e] with m a sequence of four base-2^14 digits).           *)
(***************************************************************************)
\* floor(|d| * 2^F) as a Wide, and whether that was exact
DyMag(d, F) ==
    LET m == Norm(d.m)
        k == d.e + F
    IN  IF k >= 0 THEN Shl(m, k) ELSE Shr(m, -k)
DyExact(d, F) == d.e + F >= 0 \/ LowBitsZero(Norm(d.m), -(d.e + F))
\* signed fixed-point value, truncated towards zero: |result - d*2^F| < 1
DyFixed(d, F) == S(d.s < 0, DyMag(d, F))
DyIsZero(d) == d.s = 0 \/ Len(Norm(d.m)) = 0
IsFinite(d) == "nf" \notin DOMAIN d

(***************************************************************************)
(* Dyadic arithmetic proper: records [s, m, e] with m a normalised Wide.   *)
(* DyOf converts the harness encoding (m = four digits).                   *)
(***************************************************************************)
Dy(s, m, e) == [s |-> IF Len(m) = 0 THEN 0 ELSE s, m |-> m, e |-> IF Len(m) = 0 THEN 0 ELSE e]
DyOf(d) == Dy(d.s, Norm(d.m), d.e)
DyZero == Dy(0, << >>, 0)
DyFromInt(n) == IF n = 0 THEN DyZero ELSE IF n < 0 THEN Dy(-1, FromInt(-n), 0) ELSE Dy(1, FromInt(n), 0)
DyFromWide(w) == Dy(1, w, 0)
DyNeg(a) == Dy(-a.s, a.m, a.e)
DyAbs(a) == Dy(IF a.s = 0 THEN 0 ELSE 1, a.m, a.e)
DyScale2(a, k) == Dy(a.s, a.m, a.e + k)                 \* a * 2^k
DyMulInt(a, k) ==                                        \* |k| < 2^16
    IF k = 0 \/ a.s = 0 THEN DyZero
    ELSE Dy(IF k < 0 THEN -a.s ELSE a.s, MulSmall(a.m, IF k < 0 THEN -k ELSE k), a.e)
DyMulWide(a, w) == IF a.s = 0 \/ Len(w) = 0 THEN DyZero ELSE Dy(a.s, Mul(a.m, w), a.e)
DyMul(a, b) == IF a.s = 0 \/ b.s = 0 THEN DyZero ELSE Dy(a.s * b.s, Mul(a.m, b.m), a.e + b.e)
\* signed mantissas at the common exponent min(a.e, b.e)
DyCommonE(a, b) == IF a.s = 0 THEN b.e ELSE IF b.s = 0 THEN a.e ELSE IF a.e < b.e THEN a.e ELSE b.e
DyAt(a, e) == S(a.s < 0, IF a.s = 0 THEN << >> ELSE Shl(a.m, a.e - e))
DyAdd(a, b) == LET e == DyCommonE(a, b)
                   r == SAdd(DyAt(a, e), DyAt(b, e))
               IN  Dy(IF r.neg THEN -1 ELSE 1, r.mag, e)
DySub(a, b) == DyAdd(a, DyNeg(b))
DyCmp(a, b) == LET e == DyCommonE(a, b) IN SCmp(DyAt(a, e), DyAt(b, e))
DyLe(a, b) == DyCmp(a, b) <= 0
DyLt(a, b) == DyCmp(a, b) < 0
DyEq(a, b) == DyCmp(a, b) = 0
\* |x| <= 2^-k * y   (y >= 0)
DyWithin(x, k, y) == DyLe(DyScale2(DyAbs(x), k), y)

\* IEEE-754 rounding (round to nearest, ties to even) of a dyadic value to a significand of `bits` bits
\* (normal range; the callers keep exponents away from the subnormal / overflow ranges)
DyRoundTo(a, bits) ==
    LET n == BitLen(a.m)
    IN  IF n <= bits THEN a
        ELSE LET k == n - bits
                 q == Shr(a.m, k)
                 half == Bit(a.m, k - 1) = 1
                 rest == ~LowBitsZero(a.m, k - 1)
                 up == half /\ (rest \/ Bit(q, 0) = 1)
             IN  Dy(a.s, IF up THEN Add(q, FromInt(1)) ELSE q, a.e + k)
DyRound53(a) == DyRoundTo(a, 53)
DyRound24(a) == DyRoundTo(a, 24)
DyAddF64(a, b) == DyRound53(DyAdd(a, b))

=============================================================================
