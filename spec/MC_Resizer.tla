----------------------------- MODULE MC_Resizer -----------------------------
(* All histories of up to NCALLS calls (with Reset in between) on one Resizer over a
   small but representative alphabet of calls: 4 pixel-type shapes (pixel sizes 1, 4, 6, 16;
   with/without alpha; u8 / non-u8 pass order), 3 source and 4 destination sizes, full /
   integer / fractional crops, all algorithms incl. SuperSampling with m = 1, 2, alpha on/off,
   two kernel supports, zero-sized and rejected calls.  Events are generated
   nondeterministically; Resizer!Ok decides which of them are steps of the specification. *)
EXTENDS Resizer, TLC

CONSTANTS NCALLS, SMALL      \* SMALL: reduced call alphabet (for longer histories)
VARIABLES st, ncalls
mcvars == <<st, ncalls>>

Types == { [ps |-> 1, alphaType |-> FALSE, u8 |-> TRUE],
           [ps |-> 4, alphaType |-> TRUE, u8 |-> TRUE],
           [ps |-> 6, alphaType |-> FALSE, u8 |-> FALSE],
           [ps |-> 16, alphaType |-> TRUE, u8 |-> FALSE] }
Srcs == {<<1, 1>>, <<2, 3>>, <<4, 4>>}
Dsts == {<<1, 1>>, <<2, 2>>, <<3, 4>>, <<4, 4>>}
QQ == 2
Boxes(sw, sh) ==
    {FullBox(sw, sh, QQ)}
    \cup (IF sw >= 2 /\ sh >= 2 THEN {<<QQ, 0, (sw - 1) * QQ, sh * QQ>>, <<0, QQ, sw * QQ, (sh - 1) * QQ>>} ELSE {})
    \cup (IF sw >= 2 /\ sh >= 2 THEN {<<1, 1, sw * QQ - 2, sh * QQ - 1>>} ELSE {})
Algs == {<<"nearest", 1>>, <<"conv", 1>>, <<"interp", 1>>, <<"ss", 1>>, <<"ss", 2>>}
Supports == {<<1, 2>>, <<2, 1>>}

OkCalls ==
    { [kind |-> "ok", ps |-> t.ps, alphaType |-> t.alphaType, u8 |-> t.u8,
       sw |-> s[1], sh |-> s[2], dw |-> d[1], dh |-> d[2], box |-> b, Q |-> QQ,
       alg |-> a[1], m |-> a[2], useAlpha |-> ua, sn |-> sp[1], sd |-> sp[2]] :
         t \in Types, s \in Srcs, d \in Dsts, b \in UNION {Boxes(x[1], x[2]) : x \in Srcs}, a \in Algs,
         ua \in BOOLEAN, sp \in Supports }
SmallCalls == {x \in OkCalls : /\ x.ps \in {1, 16} /\ x.sw >= 2 /\ x.dw \in {2, 3} /\ x.box[1] # QQ /\ x.box[2] # QQ
                                /\ x.alg \in {"conv", "ss"} /\ x.useAlpha /\ x.sn = 1}
Calls == {x \in (IF SMALL THEN SmallCalls ELSE OkCalls) : x.box \in Boxes(x.sw, x.sh)}
         \cup { [kind |-> k, ps |-> 4, alphaType |-> TRUE, u8 |-> TRUE, sw |-> 2, sh |-> 3, dw |-> 2, dh |-> 2,
                 box |-> FullBox(2, 3, QQ), Q |-> QQ, alg |-> "conv", m |-> 1, useAlpha |-> TRUE, sn |-> 1, sd |-> 1] :
                 k \in {"zero", "badcrop"} }

\* candidate events in state s (a superset of what is allowed; Resizer!Ok filters)
Dim == 1 .. 8
TempEvents(s) ==
    LET cand == {<<s.tmp[1], s.tmp[2], "ss">>, <<s.cur.w, s.cur.h, "alpha">>,
                 <<s.win[2] - s.win[1], s.c.dh, "conv">>, <<s.c.dw, s.win[4] - s.win[3], "conv">>}
    IN  { [k |-> "temp", w |-> x[1], h |-> x[2], ps |-> s.c.ps, len0 |-> s.bufs[x[3]],
           len1 |-> MaxI(s.bufs[x[3]], TempNeed(x[1], x[2], s.c.ps)), head |-> hd] :
            x \in {y \in cand : y[1] >= 1 /\ y[2] >= 1}, hd \in {0, s.c.ps - 1} }
PlanEvents(s) ==
    LET ad == s.c.alg # "interp"
        hws == WindowSize(s.cur.box[3], s.cur.Q, s.c.dw, s.c.sn, s.c.sd, ad)
        vws == WindowSize(s.cur.box[4], s.cur.Q, s.c.dh, s.c.sn, s.c.sd, ad)
    IN  { [k |-> "conv_plan", h |-> NeedH(s), v |-> NeedV(s), hws |-> hws, vws |-> vws,
           hf |-> hf, hl |-> hl, vf |-> vf, vl |-> vl] :
             hf \in 0 .. s.cur.w - 1, hl \in 1 .. s.cur.w, vf \in 0 .. s.cur.h - 1, vl \in 1 .. s.cur.h }
Events(s) ==
    IF s.pc = "idle" THEN {}
    ELSE
    {[k |-> x] : x \in {"zero_noop", "crop_err", "copy_fast", "premul", "divide", "ret"}}
    \cup {[k |-> "dispatch", alg |-> s.c.alg, m |-> s.c.m, alpha |-> s.c.useAlpha]}
    \cup {[k |-> "nearest", sw |-> s.c.sw, sh |-> s.c.sh, dw |-> d[1], dh |-> d[2]] : d \in {<<s.c.dw, s.c.dh>>, s.tmp}}
    \cup {[k |-> "ss_take", len |-> s.bufs["ss"], tw |-> tw, th |-> th] : tw \in Dim, th \in Dim}
    \cup {[k |-> "alpha_take", len |-> s.bufs["alpha"]]}
    \cup (IF s.pc \in {"ss1", "al1", "planned"} THEN TempEvents(s) ELSE {})
    \cup {[k |-> "conv_begin", cw |-> s.cur.w, ch |-> s.cur.h, dw |-> s.c.dw, dh |-> s.c.dh, adaptive |-> s.c.alg # "interp"]}
    \cup (IF s.pc = "begun" THEN PlanEvents(s) ELSE {})
    \cup {[k |-> "pass", axis |-> ax, off |-> off, w |-> d[1], h |-> d[2]] :
             ax \in {0, 1}, off \in 0 .. 4, d \in {<<s.c.dw, s.c.dh>>, s.tmp}}

MCInit == st = InitState /\ ncalls = 0
MCNext ==
    \/ /\ ncalls < NCALLS /\ st.pc = "idle"
       /\ \E args \in Calls : st' = Upd(st, [k |-> "call", args |-> args])
       /\ ncalls' = ncalls + 1
    \/ /\ \E e \in Events(st) : Ok(st, e) /\ st' = Upd(st, e)
       /\ UNCHANGED ncalls
    \/ /\ st.pc = "idle" /\ st' = ResetBufs(st) /\ UNCHANGED ncalls

\* every call terminates: under weak fairness of the pipeline steps the resizer is idle again and again
MCSpec == MCInit /\ [][MCNext]_mcvars /\ WF_mcvars(MCNext)
Terminates == []<>(st.pc = "idle")

\* evaluated when a call has just returned
AtReturn == (st.pc = "idle" /\ st.c.kind # "none") => CallOK(st)
\* a call in progress can always take a step (the pipeline never gets stuck)
Progress == st.pc # "idle" => \E e \in Events(st) : Ok(st, e)
\* the lengths never shrink except by Reset
BufMonotone == [][(\A b \in Bufs : st'.bufs[b] >= st.bufs[b]) \/ (\A b \in Bufs : st'.bufs[b] = 0)]_mcvars
\* scratch images fit into their buffers and buffers only leave the object during a call
HeldOnlyInCall == st.pc = "idle" => st.held = {}
=============================================================================
