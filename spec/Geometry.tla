------------------------------ MODULE Geometry ------------------------------
(***************************************************************************)
(* Everything in fast_image_resize that is a rational function of sizes    *)
(* and crop boxes: validation decisions, pixel-centre mapping, windows,    *)
(* nearest-neighbour indices, pass planning, band splitting, fit-crop.     *)
(*                                                                         *)
(* Coordinates are exact: an f64 that the harness produced from N/Q is the *)
(* record [t |-> "q", n |-> N, q |-> Q]; non-finite and other special      *)
(* values carry their own tag.  u32/usize quantities arrive as 16-bit      *)
(* limbs and are handled with Wide.                                        *)
(***************************************************************************)
EXTENDS Naturals, Integers, Sequences, FiniteSets, Wide

-----------------------------------------------------------------------------
(* Integer helpers (all operands small enough for TLC's native integers).  *)

Abs(x) == IF x < 0 THEN -x ELSE x
MinI(a, b) == IF a < b THEN a ELSE b
MaxI(a, b) == IF a < b THEN b ELSE a
\* floor and ceiling of n/d for d > 0 and any integer n (TLC's \div floors for d > 0)
FloorDiv(n, d) == n \div d
CeilDiv(n, d) == -((-n) \div d)
IsMultiple(n, d) == n % d = 0

-----------------------------------------------------------------------------
(* C04: view rectangles over u32 (Wide operands).                          *)

\* Admissible outcomes of a cropped-view constructor for parent W x H and box (l,t,w,h):
\*   "accept", or the set of error variants whose condition holds.
ViewInside(W, H, l, t, w, h) == Le(Add(l, w), W) /\ Le(Add(t, h), H)
ViewZeroArea(w, h) == Len(w) = 0 \/ Len(h) = 0
ViewPosOut(W, H, l, t) == Le(W, l) \/ Le(H, t)
ViewSizeOut(W, H, l, t, w, h) == Lt(W, Add(l, w)) \/ Lt(H, Add(t, h))

\* result r is one of "ok", "err:PositionIsOutOfImageBoundaries", "err:SizeIsOutOfImageBoundaries"
ViewDecisionOK(W, H, l, t, w, h, r) ==
    \* the statement's "if and only if": an inside rectangle -- empty ones on the border included -- is accepted,
    \* anything else gets an error whose documented condition holds (the borders belong to both error conditions)
    IF ViewInside(W, H, l, t, w, h)
    THEN r = "ok"
    ELSE \/ (r = "err:PositionIsOutOfImageBoundaries" /\ ViewPosOut(W, H, l, t))
         \/ (r = "err:SizeIsOutOfImageBoundaries" /\ ViewSizeOut(W, H, l, t, w, h))

\* What an accepted view must expose: h rows of exactly w tags, tag(x, y) = (t+y)*256 + (l+x)
\* (small operands: native integers).
ViewRows(l, t, w, h) == [y \in 1 .. h |-> [x \in 1 .. w |-> (t + y - 1) * 256 + (l + x - 1)]]

-----------------------------------------------------------------------------
(* C04: buffers.  need = w*h*size over unbounded integers (Wide).           *)

BufferNeed(w, h, size) == MulSmall(Mul(w, h), size)
\* r in {"ok", "err:InvalidBufferSize", "err:InvalidBufferAlignment"}
BufferDecisionOK(w, h, size, align, len, off, r) ==
    LET need == BufferNeed(w, h, size)
        bigEnough == Le(need, len)
        aligned == off % align = 0
    IN  IF bigEnough /\ aligned THEN r = "ok"
        ELSE IF Len(len) = 0 /\ bigEnough /\ ~aligned
        THEN r \in {"ok", "err:InvalidBufferAlignment"}     \* empty buffer: alignment is moot
        ELSE \/ (r = "err:InvalidBufferSize" /\ ~bigEnough)
             \/ (r = "err:InvalidBufferAlignment" /\ ~aligned)

-----------------------------------------------------------------------------
(* C04: f64 crop boxes of Resizer::resize.                                  *)
(* A coordinate is [t |-> "q", n, q] (= n/q, q the same power of two for    *)
(* all four coordinates of a box) or a special value:                       *)
(*   "nan", "inf", "-inf" (non-finite), "-0" (negative zero = 0),           *)
(*   "denorm" (smallest positive subnormal), "-denorm".                     *)

CIsFinite(c) == c.t \notin {"nan", "inf", "-inf"}
\* numerator in units of 1/q, and an infinitesimal part in {-1, 0, 1}
CNum(c) == IF c.t = "q" THEN c.n ELSE 0
CEps(c) == IF c.t = "denorm" THEN 1 ELSE IF c.t = "-denorm" THEN -1 ELSE 0
\* sign of (value of c) compared with integer k/q : lexicographic on (numerator, infinitesimal)
CLess0(c) == CNum(c) < 0 \/ (CNum(c) = 0 /\ CEps(c) < 0)
CIsZero(c) == (c.t = "q" /\ c.n = 0) \/ c.t = "-0"

\* Decision for source W x H (integers), box <<l, t, w, h>> in units of 1/Q.
\* The generator never combines an infinitesimal with an exact boundary, so the infinitesimal
\* only matters for the sign tests.
CropAllFinite(b) == \A i \in 1 .. 4 : CIsFinite(b[i])
CropNegSize(b) == CLess0(b[3]) \/ CLess0(b[4])
CropZeroArea(b) == CIsZero(b[3]) \/ CIsZero(b[4])
CropNegOrigin(b) == CLess0(b[1]) \/ CLess0(b[2])
CropPosOut(b, W, H, Q) == CNum(b[1]) >= W * Q \/ CNum(b[2]) >= H * Q
CropSizeOut(b, W, H, Q) == CNum(b[1]) + CNum(b[3]) > W * Q \/ CNum(b[2]) + CNum(b[4]) > H * Q
CropInside(b, W, H, Q) ==
    /\ CropAllFinite(b) /\ ~CropNegSize(b) /\ ~CropNegOrigin(b)
    /\ CNum(b[1]) + CNum(b[3]) <= W * Q /\ CNum(b[2]) + CNum(b[4]) <= H * Q

CropErr(v) == "err:SrcCroppingError(" \o v \o ")"
CropVariantOK(b, W, H, Q, r) ==
    \/ (r = CropErr("WidthOrHeightLessThanZero") /\ CropNegSize(b))
    \/ (r = CropErr("PositionIsOutOfImageBoundaries") /\ (CropPosOut(b, W, H, Q) \/ CropNegOrigin(b)))
    \/ (r = CropErr("SizeIsOutOfImageBoundaries") /\ CropSizeOut(b, W, H, Q))
CropAnyErr(r) == r \in {CropErr("WidthOrHeightLessThanZero"), CropErr("PositionIsOutOfImageBoundaries"),
                        CropErr("SizeIsOutOfImageBoundaries")}
\* r = result string of Resizer::resize; zeroDst = destination has a zero dimension
CropDecisionOK(b, W, H, Q, zeroDst, r) ==
    IF CropZeroArea(b) \/ zeroDst
    THEN \* documented no-op ("do nothing if any size is zero"), decided before the box is looked at;
         \* rejecting a box that is also outside / not finite is equally within the statement
         \/ r = "ok"
         \/ (CropAnyErr(r) /\ ~CropAllFinite(b))
         \/ (CropAllFinite(b) /\ CropVariantOK(b, W, H, Q, r))
    ELSE IF ~CropAllFinite(b)
    THEN CropAnyErr(r)        \* never inside an image; which variant reports it is not fixed
    ELSE IF CropInside(b, W, H, Q)
    THEN r = "ok"
    ELSE CropVariantOK(b, W, H, Q, r)

-----------------------------------------------------------------------------
(* C15: the crop that fits the source into the destination's aspect ratio.  *)
(* Ideal (exact rational) definition; all four results are fractions over   *)
(* small integers, kept as numerator/denominator pairs.                     *)
(* centering c = cn/cq (already clamped to [0, 1]).                         *)

Clamp01(n, q) == IF n < 0 THEN <<0, 1>> ELSE IF n > q THEN <<1, 1>> ELSE <<n, q>>

\* native integers: valid for sizes whose products stay below 2^31 (model checking);
\* the trace specification evaluates the same relations with Wide/dyadic numbers.
FitWider(sw, sh, dw, dh) == sw * dh >= dw * sh          \* source is wider than needed
FitEqual(sw, sh, dw, dh) == sw * dh = dw * sh
\* crop width and height as fractions <<num, den>>
FitW(sw, sh, dw, dh) == IF FitWider(sw, sh, dw, dh) THEN <<dw * sh, dh>> ELSE <<sw, 1>>
FitH(sw, sh, dw, dh) == IF FitWider(sw, sh, dw, dh) THEN <<sh, 1>> ELSE <<sw * dh, dw>>
\* left = (sw - cropw) * cx
FitL(sw, sh, dw, dh, cxn, cxq) ==
    LET w == FitW(sw, sh, dw, dh) IN <<(sw * w[2] - w[1]) * cxn, w[2] * cxq>>
FitT(sw, sh, dw, dh, cyn, cyq) ==
    LET h == FitH(sw, sh, dw, dh) IN <<(sh * h[2] - h[1]) * cyn, h[2] * cyq>>

FracLe(a, b) == a[1] * b[2] <= b[1] * a[2]      \* positive denominators
FracAdd(a, b) == <<a[1] * b[2] + b[1] * a[2], a[2] * b[2]>>
FracEq(a, b) == a[1] * b[2] = b[1] * a[2]

-----------------------------------------------------------------------------
(* Pixel-centre mapping, windows, nearest indices (C01, C03, C10, C11).     *)
(* One axis: source extent inSize, crop [a/Q, (a+wq)/Q), n destination      *)
(* samples.  scale = wq/(Q n); destination sample i (0-based) has its       *)
(* centre at  in0 + (i + 1/2) * scale.                                      *)

\* centre of sample i as the fraction CenN / CenD
CenD(Q, n) == 2 * Q * n
CenN(a, wq, n, i) == 2 * n * a + (2 * i + 1) * wq

\* nearest-neighbour source index: floor(centre); both neighbours at an exact tie
NearestSet(inSize, a, wq, Q, n, i) ==
    LET num == CenN(a, wq, n, i)
        den == CenD(Q, n)
        f == FloorDiv(num, den)
        cand == IF IsMultiple(num, den) THEN {f - 1, f} ELSE {f}
    IN  {x \in cand : x >= 0 /\ x < inSize}

\* Convolution window of sample i for a kernel of support sn/sd.
\* adaptive: the kernel is stretched by max(scale, 1); otherwise never stretched.
\* All quantities over the common denominator D = 2 Q n sd.
WinD(Q, n, sd) == 2 * Q * n * sd
WinCen(a, wq, n, sd, i) == sd * CenN(a, wq, n, i)
WinRad(wq, Q, n, sn, adaptive) == IF adaptive /\ wq > Q * n THEN 2 * sn * wq ELSE 2 * Q * n * sn
WinLo(inSize, a, wq, Q, n, sn, sd, adaptive, i) ==
    MaxI(0, FloorDiv(WinCen(a, wq, n, sd, i) - WinRad(wq, Q, n, sn, adaptive), WinD(Q, n, sd)))
WinHi(inSize, a, wq, Q, n, sn, sd, adaptive, i) ==
    MinI(inSize, CeilDiv(WinCen(a, wq, n, sd, i) + WinRad(wq, Q, n, sn, adaptive), WinD(Q, n, sd)))
\* index of the source pixel under the centre (clamped into the source)
CenPix(inSize, a, wq, Q, n, i) == MinI(inSize - 1, MaxI(0, FloorDiv(CenN(a, wq, n, i), CenD(Q, n))))

\* A recorded bound [start, start + size) is acceptable for sample i when it lies inside the
\* support window, is not empty and contains the pixel under the centre (leading/trailing taps
\* of weight zero may have been trimmed).
WindowOK(inSize, a, wq, Q, n, sn, sd, adaptive, i, start, size) ==
    /\ size >= 1
    /\ start >= WinLo(inSize, a, wq, Q, n, sn, sd, adaptive, i)
    /\ start + size <= WinHi(inSize, a, wq, Q, n, sn, sd, adaptive, i)
    /\ start + size <= inSize
\* maximal number of taps per sample: 2 * ceil(radius) + 1
WindowSize(wq, Q, n, sn, sd, adaptive) ==
    2 * CeilDiv(WinRad(wq, Q, n, sn, adaptive), WinD(Q, n, sd)) + 1

\* Does the axis need a resampling pass?  (destination extent differs from the crop extent, or the
\* crop origin is not an integer)
NeedPass(a, wq, Q, n) == wq # n * Q \/ ~IsMultiple(a, Q)
\* integer-aligned crop of exactly the destination size: the copy fast path
IsCopy(b, Q, dw, dh) ==
    /\ IsMultiple(b[1], Q) /\ IsMultiple(b[2], Q)
    /\ b[3] = dw * Q /\ b[4] = dh * Q

\* Super-sampling plan: factor = min(w/dw, h/dh) / m ; two steps iff factor > 6/5.
\* b = crop box in units 1/Q.  Returns "two", "one" or "either" (exactly 6/5).
SsFactorCmp(b, Q, dw, dh, m) ==      \* compares factor with 6/5 : -1, 0, 1
    LET wx == b[3] * dh              \* w/dw vs h/dh  <=>  w*dh vs h*dw
        hx == b[4] * dw
        \* the smaller scale as a fraction num/den
        num == IF wx <= hx THEN b[3] ELSE b[4]
        den == (IF wx <= hx THEN dw ELSE dh) * Q * m
    IN  IF 5 * num > 6 * den THEN 1 ELSE IF 5 * num = 6 * den THEN 0 ELSE -1
\* size of the intermediate image along one axis: round(extent / factor), ties either way
\* extent/factor = extq * den / (Q * num)
SsTmpSet(extq, b, Q, dw, dh, m) ==
    LET wx == b[3] * dh
        hx == b[4] * dw
        num == IF wx <= hx THEN b[3] ELSE b[4]
        den == (IF wx <= hx THEN dw ELSE dh) * Q * m
        tn == extq * den
        td == Q * num
        f == FloorDiv(2 * tn + td, 2 * td)
    IN  IF IsMultiple(2 * tn + td, 2 * td) THEN {f - 1, f} ELSE {f}

=============================================================================
