CONSTANT NoPassCopies = TRUE
CONSTANT NCALLS = 3
CONSTANT SMALL = TRUE
INIT MCInit
NEXT MCNext
INVARIANT AtReturn
INVARIANT Progress
INVARIANT HeldOnlyInCall
PROPERTY BufMonotone
CHECK_DEADLOCK FALSE
