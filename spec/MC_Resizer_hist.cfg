CONSTANT NoPassCopies = TRUE
CONSTANT NCALLS = 3
CONSTANT SMALL = TRUE
SPECIFICATION MCSpec
INVARIANT AtReturn
INVARIANT Progress
INVARIANT HeldOnlyInCall
PROPERTY BufMonotone
PROPERTY Terminates
CHECK_DEADLOCK FALSE
