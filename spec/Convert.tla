------------------------------- MODULE Convert -------------------------------
(***************************************************************************)
(* Component depth conversion (C17) and colour-space mapping tables (C16). *)
(*                                                                         *)
(* Values are the integers the traces carry: u8 / u16 / i32 as themselves, *)
(* f32 as ordered keys (monotone in the value).                            *)
(* A conversion is observed as a table: parallel sequences `xs` (inputs,   *)
(* ascending) and `ys` (outputs).                                          *)
(***************************************************************************)
EXTENDS Geometry

MaxOf(comp) == CASE comp = "u8" -> 255 [] comp = "u16" -> 65535 [] comp = "i32" -> 2147483647 [] OTHER -> 0
KeyOne == 1065353216           \* key (= bit pattern) of 1.0f
KeyMinusOne == -1065353216
I32Min == -2147483647 - 1

\* the integer conversions the crate documents (IntoPixelComponent); used to judge the alpha lane of the mappers
DepthConv(v, from, to) ==
    CASE from = to -> v
      [] from = "u8" /\ to = "u16" -> 257 * v
      [] from = "u16" /\ to = "u8" -> v \div 256
      [] OTHER -> -1

\* ---- predicates on an observed table
Monotone(ys) == \A i \in 1 .. Len(ys) - 1 : ys[i] <= ys[i + 1]
Ascending(xs) == \A i \in 1 .. Len(xs) - 1 : xs[i] <= xs[i + 1]
\* value the table gives for input x (x must occur)
At(xs, ys, x) == ys[CHOOSE i \in 1 .. Len(xs) : xs[i] = x]
Occurs(xs, x) == \E i \in 1 .. Len(xs) : xs[i] = x

\* lower / upper end of the nominal range of a component type (floats: 0..1, or -1..1 when paired with i32)
LoOf(comp, other) == CASE comp = "i32" -> (IF other = "f32" THEN I32Min ELSE 0)
                       [] comp = "f32" -> (IF other = "i32" THEN KeyMinusOne ELSE 0)
                       [] OTHER -> 0
HiOf(comp, other) == IF comp = "f32" THEN KeyOne ELSE MaxOf(comp)

\* every output lies in the destination's nominal range (no wrap-around)
InDstRange(ys, from, to) ==
    \A i \in 1 .. Len(ys) : ys[i] >= LoOf(to, from) /\ ys[i] <= HiOf(to, from)

=============================================================================
