------------------------------ MODULE MC_Convert ------------------------------
(* The integer depth conversions the crate documents, as specified functions, satisfy the
   C17 predicates for every 8/16-bit value: monotone, end points, widening then narrowing is
   the identity, narrowing saturates.  (i32 values are modelled with the same shifts.) *)
EXTENDS Convert, TLC
VARIABLE v
Init == v \in 0 .. 65535
Next == UNCHANGED v

U8toU16(x) == 257 * x
U16toU8(x) == x \div 256
U8toI32(x) == x * 8388608              \* << 23
U16toI32(x) == x * 32768               \* << 15
SatAdd(x, y) == IF x > 2147483647 - y THEN 2147483647 ELSE x + y
I32toU8(x) == SatAdd(MaxI(x, 0), 4194304) \div 8388608
I32toU16(x) == SatAdd(MaxI(x, 0), 16384) \div 32768

Inv ==
    /\ (v <= 255 =>
          /\ U16toU8(U8toU16(v)) = v /\ I32toU8(U8toI32(v)) = v
          /\ (v < 255 => U8toU16(v) < U8toU16(v + 1) /\ U8toI32(v) < U8toI32(v + 1))
          /\ U8toU16(0) = 0 /\ U8toU16(255) = 65535
          /\ DepthConv(v, "u8", "u16") = U8toU16(v))
    /\ I32toU16(U16toI32(v)) = v
    /\ (v < 65535 => U16toU8(v) <= U16toU8(v + 1) /\ U16toI32(v) < U16toI32(v + 1))
    /\ U16toU8(65535) = 255 /\ U16toU8(0) = 0
    /\ DepthConv(v, "u16", "u8") = U16toU8(v)
    \* narrowing from i32 is monotone around every 16-bit step and saturates at both ends
    /\ I32toU16(U16toI32(v) + 16383) = v /\ (v < 65535 => I32toU16(U16toI32(v) + 16384) = v + 1)
    /\ I32toU8(-1 - v) = 0 /\ I32toU16(-1 - v) = 0
    /\ I32toU8(2147483647 - v) = 255 /\ (v <= 16383 => I32toU16(2147483647 - v) = 65535)
    /\ I32toU16(2147483647 - v) >= 65534
=============================================================================
