----------------------------- MODULE MC_Backends -----------------------------
(***************************************************************************)
(* Why a SIMD kernel computes the same integer sum as the portable loop:   *)
(* the x86 kernels consume the taps of a window, the components of a row   *)
(* and the rows of an image in chunks with remainders.  Each scheme is a   *)
(* small loop program; the invariant at termination is that every index    *)
(* 0..len-1 has been consumed exactly once, for every length up to LMAX.   *)
(*   horizontal taps : chunks [8,4,2,1] / [4,2,1] / [2,1] (per pixel type) *)
(*   rows            : blocks of 4 rows, then single rows                  *)
(*   vertical lanes  : chunks 32/8/4/1 (SSE4.1), 32/16/8/4/1 (AVX2)        *)
(*   alpha rows      : blocks of the vector width, then a remainder        *)
(* The model also yields the residue classes the conformance run covers.   *)
(***************************************************************************)
EXTENDS Naturals, Sequences, FiniteSets, TLC
CONSTANT LMAX
\* chunk sizes found in src/convolution/*/{sse4,avx2}.rs and src/alpha/*/{sse4,avx2}.rs
Schemes == { <<16, 8, 4, 2, 1>>, <<8, 4, 2, 1>>, <<4, 2, 1>>, <<2, 1>>, <<5, 1>>, <<16, 8, 1>>, <<8, 4, 1>>, <<4, 1>>,
             <<32, 8, 4, 1>>, <<32, 16, 8, 4, 1>>, <<16, 1>>, <<8, 1>>, <<1>> }

VARIABLES len, scheme, pos, stage, count
vars == <<len, scheme, pos, stage, count>>

Init == /\ len \in 0 .. LMAX /\ scheme \in Schemes
        /\ pos = 0 /\ stage = 1
        /\ count = [i \in 0 .. LMAX - 1 |-> 0]

\* consume one chunk of the current stage if it fits, otherwise move on to the next (smaller) chunk size
Consume == /\ stage <= Len(scheme)
           /\ pos + scheme[stage] <= len
           /\ count' = [i \in 0 .. LMAX - 1 |-> IF i >= pos /\ i < pos + scheme[stage] THEN count[i] + 1 ELSE count[i]]
           /\ pos' = pos + scheme[stage]
           /\ UNCHANGED <<len, scheme, stage>>
NextStage == /\ stage <= Len(scheme)
             /\ pos + scheme[stage] > len
             /\ stage' = stage + 1
             /\ UNCHANGED <<len, scheme, pos, count>>
Next == Consume \/ NextStage

Done == stage > Len(scheme)
\* never a lane twice, never beyond the end (no over-read), and at termination everything consumed
Inv == /\ \A i \in 0 .. LMAX - 1 : count[i] <= 1 /\ (i >= len => count[i] = 0)
       /\ pos <= len
       /\ Done => (pos = len /\ \A i \in 0 .. LMAX - 1 : (i < len) => count[i] = 1)
\* every scheme ends with chunk size 1, so termination consumes everything
Terminates == <>Done
Spec == Init /\ [][Next]_vars /\ WF_vars(Next)
=============================================================================
