--------------------------------- MODULE Api ---------------------------------
(***************************************************************************)
(* Decision tables of the dynamic entry points: which (source type,        *)
(* destination type, sizes) combinations an operation accepts and which    *)
(* documented error it answers otherwise.  Pixel types are records         *)
(* [comp, nc] (component type, number of components).                      *)
(* Inputs that violate two conditions at once admit either error.          *)
(***************************************************************************)
EXTENDS Naturals, Sequences, FiniteSets

PT(name) ==
    CASE name = "U8" -> [comp |-> "u8", nc |-> 1]     [] name = "U8x2" -> [comp |-> "u8", nc |-> 2]
      [] name = "U8x3" -> [comp |-> "u8", nc |-> 3]   [] name = "U8x4" -> [comp |-> "u8", nc |-> 4]
      [] name = "U16" -> [comp |-> "u16", nc |-> 1]   [] name = "U16x2" -> [comp |-> "u16", nc |-> 2]
      [] name = "U16x3" -> [comp |-> "u16", nc |-> 3] [] name = "U16x4" -> [comp |-> "u16", nc |-> 4]
      [] name = "I32" -> [comp |-> "i32", nc |-> 1]   [] name = "F32" -> [comp |-> "f32", nc |-> 1]
      [] name = "F32x2" -> [comp |-> "f32", nc |-> 2] [] name = "F32x3" -> [comp |-> "f32", nc |-> 3]
      [] name = "F32x4" -> [comp |-> "f32", nc |-> 4]
AllNames == {"U8", "U8x2", "U8x3", "U8x4", "U16", "U16x2", "U16x3", "U16x4", "I32", "F32", "F32x2", "F32x3", "F32x4"}

HasAlpha(name) == PT(name).nc \in {2, 4} /\ PT(name).comp # "i32"
Mappable(name) == PT(name).comp \in {"u8", "u16"}

\* set of admissible answers of op(src, dst) where sameSize says whether the dimensions agree
Answers(op, src, dst, sameSize) ==
    CASE op = "resize" ->
            IF src # dst THEN {"err:PixelTypesAreDifferent"} ELSE {"ok"}          \* sizes may differ: that is the point
      [] op \in {"mul", "div"} ->
            LET e1 == IF src # dst THEN {"err:PixelTypesAreDifferent"} ELSE {}
                e2 == IF src = dst /\ ~HasAlpha(src) THEN {"err:ImageError(UnsupportedPixelType)"} ELSE {}
                e3 == IF src = dst /\ HasAlpha(src) /\ ~sameSize THEN {"err:SizeIsDifferent"} ELSE {}
                \* an unsupported type with different sizes may report either problem
                e4 == IF src = dst /\ ~HasAlpha(src) /\ ~sameSize THEN {"err:SizeIsDifferent"} ELSE {}
            IN  IF e1 \cup e2 \cup e3 = {} THEN {"ok"} ELSE e1 \cup e2 \cup e3 \cup e4
      [] op \in {"mul_inplace", "div_inplace"} ->
            IF HasAlpha(dst) THEN {"ok"} ELSE {"err:UnsupportedPixelType"}
      [] op = "map" ->
            LET okTypes == Mappable(src) /\ Mappable(dst) /\ PT(src).nc = PT(dst).nc
                e1 == IF ~sameSize THEN {"err:DifferentDimensions"} ELSE {}
                e2 == IF ~okTypes THEN {"err:UnsupportedCombinationOfImageTypes"} ELSE {}
            IN  IF e1 \cup e2 = {} THEN {"ok"} ELSE e1 \cup e2
      [] op = "map_inplace" ->
            IF Mappable(dst) THEN {"ok"} ELSE {"err:UnsupportedCombinationOfImageTypes"}
      [] op = "convert" ->
            LET okTypes == PT(src).nc = PT(dst).nc /\ (PT(src).nc = 1 \/ (PT(src).comp # "i32" /\ PT(dst).comp # "i32"))
                e1 == IF ~sameSize THEN {"err:DifferentDimensions"} ELSE {}
                e2 == IF ~okTypes THEN {"err:UnsupportedCombinationOfImageTypes"} ELSE {}
            IN  IF e1 \cup e2 = {} THEN {"ok"} ELSE e1 \cup e2

\* ---- containers: an owned image of w x h pixels of type pt (small sizes: native integers)
CompSize(comp) == CASE comp = "u8" -> 1 [] comp = "u16" -> 2 [] comp = "i32" -> 4 [] comp = "f32" -> 4
PixelSize(name) == CompSize(PT(name).comp) * PT(name).nc
TypeOrder == <<"U8", "U8x2", "U8x3", "U8x4", "U16", "U16x2", "U16x3", "U16x4", "I32", "F32", "F32x2", "F32x3", "F32x4">>
\* typed access answers a view of the image's own size for the image's own pixel type and None for the twelve others
TypedAccessOK(name, answers) ==
    /\ Len(answers) = 13
    /\ \A i \in 1 .. 13 : answers[i] = (IF TypeOrder[i] = name THEN 1 ELSE 0)
\* e = the observations of one life cycle: new, fill, copy, mutate the copy, typed access, into_vec (owned and borrowed)
ContainerVerdict(e) ==
    LET c == e.echo
    IN  IF e.ret # "ok" THEN "panic"
        ELSE IF e.len # c.w * c.h * PixelSize(c.pt) THEN "buffer-length"
        ELSE IF e.zero # 1 THEN "new-image-not-zeroed"
        ELSE IF e.dims # <<c.w, c.h>> \/ e.ptname # c.pt THEN "accessors"
        ELSE IF e.copy_eq # 1 THEN "copy-differs"
        ELSE IF e.indep # 1 THEN "copy-shares-the-buffer"
        ELSE IF e.vec_eq # 1 THEN "into_vec-differs"
        ELSE IF ~TypedAccessOK(c.pt, e.typed) \/ ~TypedAccessOK(c.pt, e.typed_mut) THEN "typed-access"
        ELSE IF "bret" \in DOMAIN e THEN "borrowed-image-rejected"
        ELSE IF ~TypedAccessOK(c.pt, e.btyped) \/ ~TypedAccessOK(c.pt, e.btyped_mut) THEN "typed-access-borrowed"
        ELSE IF e.bvec_eq # 1 THEN "into_vec-of-borrowed-differs"
        ELSE "ok"
\* Filter::new: accepted iff the support is finite and positive
FilterNewAnswer(class) == IF class \in {"pos", "tiny", "huge"} THEN "ok" ELSE "err:InvalidSupport"

\* the tables are total and an accepted combination has no admissible error
TablesOK ==
    \A op \in {"resize", "mul", "div", "mul_inplace", "div_inplace", "map", "map_inplace", "convert"} :
    \A s \in AllNames : \A d \in AllNames : \A same \in BOOLEAN :
        /\ Answers(op, s, d, same) # {}
        /\ ("ok" \in Answers(op, s, d, same) => Answers(op, s, d, same) = {"ok"})
=============================================================================
