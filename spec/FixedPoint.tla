------------------------------ MODULE FixedPoint ------------------------------
(***************************************************************************)
(* The integer pipeline of the 8/16-bit convolution kernels:               *)
(*   precision choice from the largest weight, round-half-away             *)
(*   quantisation of the f64 weights, accumulate with the rounding         *)
(*   constant 2^(p-1), arithmetic shift, clip.                             *)
(* Weights are exact dyadic rationals (Wide!Dy records); small-operand     *)
(* operators (8-bit samples, 16-bit coefficients) use native integers, the *)
(* 16-bit pipeline uses signed Wide numbers.                               *)
(***************************************************************************)
EXTENDS Geometry

\* round(|d| * 2^k) half away from zero, as a Wide magnitude (d a Dy record)
RoundMag(d, k) ==
    LET sh == d.e + k
    IN  IF d.s = 0 THEN Zero
        ELSE IF sh >= 0 THEN Shl(d.m, sh)
        ELSE LET q == Shr(d.m, -sh)
             IN  IF Bit(d.m, -sh - 1) = 1 THEN Add(q, FromInt(1)) ELSE q
RoundSigned(d, k) == S(d.s < 0, RoundMag(d, k))

\* Normalizer16/32::new: the largest p < limit such that round(maxw * 2^(p'+1)) < 2^coeffBits held for every p' < p,
\* i.e. the first p whose *next* scale would leave the coefficient type
RECURSIVE PrecisionFrom(_, _, _, _)
PrecisionFrom(maxw, cur, limit, coeffBits) ==
    IF cur = limit - 1 THEN cur
    ELSE IF BitLen(RoundMag(maxw, cur + 1)) > coeffBits /\ maxw.s > 0 THEN cur
    ELSE PrecisionFrom(maxw, cur + 1, limit, coeffBits)
\* maxw.s <= 0 (no positive weight): the loop runs to its end
Precision16(maxw) == PrecisionFrom(maxw, 0, 22, 15)     \* u8 pixels: i16 coefficients, p <= 21
Precision32(maxw) == PrecisionFrom(maxw, 0, 46, 31)     \* u16 pixels: i32 coefficients, p <= 45

\* ---- 8-bit samples, native integers (|k| < 2^15, x < 2^8, windows of a few hundred taps)
RECURSIVE Dot(_, _, _)
Dot(xs, ks, i) == IF i > Len(ks) THEN 0 ELSE xs[i] * ks[i] + Dot(xs, ks, i + 1)
RECURSIVE SumSeq(_, _)
SumSeq(ks, i) == IF i > Len(ks) THEN 0 ELSE ks[i] + SumSeq(ks, i + 1)
RECURSIVE SumAbs(_, _)
SumAbs(ks, i) == IF i > Len(ks) THEN 0 ELSE Abs(ks[i]) + SumAbs(ks, i + 1)
Clip(v, max) == IF v < 0 THEN 0 ELSE IF v > max THEN max ELSE v
\* TLC's \div floors for a positive divisor = arithmetic shift right
ConvSample(xs, ks, p, max) == Clip((Pow2(p - 1) + Dot(xs, ks, 1)) \div Pow2(p), max)
\* index into the 1280-entry clip table of the 8-bit kernels
ClipIndex(xs, ks, p) == 640 + (Pow2(p - 1) + Dot(xs, ks, 1)) \div Pow2(p)

\* partition of unity after quantisation: exactly the sums for which every constant image 0..max is reproduced
\* (a sum above 2^p is forgiven at the top value by the clip)
UnityBand(sum, p, max) == IF sum <= Pow2(p) THEN (Pow2(p) - sum) * max <= Pow2(p - 1)
                                             ELSE (sum - Pow2(p)) * (max - 1) < Pow2(p - 1)

\* ---- 16-bit samples: signed Wide accumulator
RECURSIVE DotW(_, _, _)
DotW(xs, ks, i) == IF i > Len(ks) THEN SZero ELSE SAdd(SMulSmall(SFromInt(ks[i]), xs[i]), DotW(xs, ks, i + 1))
Pow2W(p) == Shl(FromInt(1), p)
ConvSampleW(xs, ks, p) ==
    LET acc == SAdd(S(FALSE, Pow2W(p - 1)), DotW(xs, ks, 1))
        q == SShrFloor(acc, p)
    IN  IF q.neg THEN 0 ELSE IF Lt(FromInt(65535), q.mag) THEN 65535 ELSE ToInt(q.mag)
\* |sum - 2^p| * 65535 < 2^(p-1) with sum a native integer up to 2^31 and p up to 45
\* signed Wide sum of i32 coefficients: high and low 15-bit halves are summed natively (each stays below 2^31
\* for windows of up to 16384 taps), one Wide operation per window
RECURSIVE SumHi(_, _)
SumHi(ks, i) == IF i > Len(ks) THEN 0 ELSE (ks[i] \div 32768) + SumHi(ks, i + 1)
RECURSIVE SumLo(_, _)
SumLo(ks, i) == IF i > Len(ks) THEN 0 ELSE (ks[i] % 32768) + SumLo(ks, i + 1)
SumSeqW(ks, i) == SAdd(SMulSmall(SFromInt(SumHi(ks, i)), 32768), SFromInt(SumLo(ks, i)))
\* sum = signed Wide sum of the i32 coefficients
UnityBandW(sum, p) ==
    LET d == SSub(sum, S(FALSE, Pow2W(p)))
    IN  IF d.neg \/ Len(d.mag) = 0 THEN Le(MulSmall(d.mag, 65535), Pow2W(p - 1))
        ELSE Lt(MulSmall(d.mag, 65534), Pow2W(p - 1))

=============================================================================
