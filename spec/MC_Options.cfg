SPECIFICATION Spec
CONSTANT N = 3
INVARIANT Inv
INVARIANT Emit
CHECK_DEADLOCK FALSE
