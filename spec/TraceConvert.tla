----------------------------- MODULE TraceConvert -----------------------------
(***************************************************************************)
(* Trace validation for C16 (colour mappers) and C17 (depth conversion):   *)
(* complete or sampled tables recorded through the public API.             *)
(*  kind "table"     xs ascending inputs, ys outputs: monotone, end points,*)
(*                   outputs inside the destination range (saturation)     *)
(*  kind "roundtrip" ys = narrow(widen(xs)) must equal xs                  *)
(*  kind "reject"    mismatching sizes / component counts: documented      *)
(*                   error, destination untouched                          *)
(*  kind "band"      mapper table entries against the documented transfer  *)
(*                   function, decided with exact integer powers (Wide)    *)
(*  kind "alpha"     multi-component rows: colour lanes = the 1-component  *)
(*                   table (memo), alpha lane = plain depth conversion     *)
(***************************************************************************)
EXTENDS Convert, TLC, Json, IOUtils

Rec == ndJsonDeserialize(IOEnv.TRACE)
VARIABLES l, nbad, tab
vars == <<l, nbad, tab>>

\* ---- C17 / C16 tables
TableJudge(e) ==
    LET c == e.echo
        xs == e.src   ys == e.dst
    IN  IF e.ret # "ok" THEN "error-or-panic"
        ELSE IF Len(xs) # Len(ys) THEN "length"
        ELSE IF ~Ascending(xs) THEN "harness-order"
        ELSE IF c.from = c.to /\ "mapper" \notin DOMAIN c THEN (IF ys = xs THEN "ok" ELSE "same-type-not-identity")
        ELSE IF ~Monotone(ys) THEN "not-monotone"
        ELSE IF ~InDstRange(ys, c.from, c.to) THEN "outside-destination-range"
        ELSE IF Occurs(xs, c.lo) /\ At(xs, ys, c.lo) # c.loTo THEN "minimum-not-mapped-to-minimum"
        ELSE IF Occurs(xs, c.hi) /\ At(xs, ys, c.hi) # c.hiTo THEN "maximum-not-mapped-to-maximum"
        \* inputs beyond the nominal range saturate at the range ends
        ELSE IF \E i \in 1 .. Len(xs) : (xs[i] < c.lo /\ ys[i] # c.loTo) \/ (xs[i] > c.hi /\ ys[i] # c.hiTo) THEN "does-not-saturate"
        ELSE "ok"

RoundTripJudge(e) ==
    IF e.ret # "ok" THEN "error-or-panic"
    ELSE IF e.dst # e.echo.orig THEN "round-trip-not-identity"
    ELSE "ok"

RejectJudge(e) ==
    IF e.ret \notin {"err:DifferentDimensions", "err:UnsupportedCombinationOfImageTypes"} THEN "not-rejected"
    ELSE IF e.ret # e.echo.expect THEN "wrong-error"
    ELSE IF e.dst # e.dst0 THEN "destination-touched"
    ELSE "ok"

\* ---- C16 transfer-function band:  | M * f(v/N) - y | <= 1/2 + 1/16  decided without roots.
\* f(x) = x^(p/q)  <=>  compare (y -+ d)^q / M^q  with  v^p / N^p ;  all in units of 1/16: Y = 16 y, D = 9.
RECURSIVE Pw(_, _)
Pw(w, k) == IF k = 0 THEN FromInt(1) ELSE Mul(w, Pw(w, k - 1))
\* is  (a/b)^q <= (c/d)^p   for naturals a, b, c, d (b, d > 0)
PowLe(a, b, q, c, d, p) == Le(Mul(Pw(a, q), Pw(d, p)), Mul(Pw(c, p), Pw(b, q)))
\* band for y = M * (num/den)^(p/q), everything scaled by 16 :  (16y - 9)/(16 M) <= (num/den)^(p/q) <= (16y + 9)/(16 M)
PowBandOK(y, M, num, den, p, q) ==
    LET lo == IF 16 * y - 9 < 0 THEN 0 ELSE 16 * y - 9
        hi == 16 * y + 9
    IN  /\ PowLe(FromInt(lo), MulSmall(FromInt(M), 16), q, num, den, p)
        /\ PowLe(num, den, p, FromInt(hi), MulSmall(FromInt(M), 16), q)
\* linear band for y = M * num/den
LinBandOK(y, M, num, den) ==
    LET lo == IF 16 * y - 9 < 0 THEN 0 ELSE 16 * y - 9
        hi == 16 * y + 9
    IN  /\ Le(Mul(FromInt(lo), den), Mul(MulSmall(FromInt(M), 16), num))
        /\ Le(Mul(MulSmall(FromInt(M), 16), num), Mul(FromInt(hi), den))

\* gamma 2.2: forward x^(11/5), backward x^(5/11)
GammaOK(v, y, N, M, fwd) == IF fwd THEN PowBandOK(y, M, FromInt(v), FromInt(N), 11, 5)
                                   ELSE PowBandOK(y, M, FromInt(v), FromInt(N), 5, 11)
\* sRGB -> linear: x < 0.04045 ? x/12.92 : ((x + 0.055)/1.055)^(12/5)      (x = v/N)
\*   x < 0.04045  <=>  100000 v < 4045 N
SrgbFwdOK(v, y, N, M) ==
    IF Lt(MulSmall(Mul(FromInt(v), FromInt(1000)), 100), Mul(FromInt(4045), FromInt(N)))
    THEN LinBandOK(y, M, MulSmall(FromInt(v), 100), MulSmall(FromInt(N), 1292))
    ELSE PowBandOK(y, M, Add(MulSmall(FromInt(v), 1000), MulSmall(FromInt(N), 55)), MulSmall(FromInt(N), 1055), 12, 5)
\* linear -> sRGB: x < 0.0031308 ? 12.92 x : 1.055 x^(5/12) - 0.055
\*   y/M = 1.055 t - 0.055  <=>  t = (1000 y/M + 55)/1055 ;  band on t:  ((1000 (16y -+ 9) + 55*16 M) / (1055*16 M))^12 vs (v/N)^5
SrgbBwdOK(v, y, N, M) ==
    IF Lt(Mul(FromInt(v), FromInt(10000000)), Mul(FromInt(31308), FromInt(N)))
    THEN LinBandOK(y, M, MulSmall(FromInt(v), 1292), MulSmall(FromInt(N), 100))
    ELSE LET m16 == MulSmall(FromInt(M), 16)
             lo16 == IF 16 * y - 9 < 0 THEN 0 ELSE 16 * y - 9
             tlo == Add(MulSmall(FromInt(lo16), 1000), MulSmall(m16, 55))
             thi == Add(MulSmall(FromInt(16 * y + 9), 1000), MulSmall(m16, 55))
             tden == MulSmall(m16, 1055)
         IN  /\ PowLe(tlo, tden, 12, FromInt(v), FromInt(N), 5)
             /\ PowLe(FromInt(v), FromInt(N), 5, thi, tden, 12)

BandJudge(e) ==
    LET c == e.echo
        ok(i) == IF c.mapper = "gamma" THEN GammaOK(e.src[i], e.dst[i], c.N, c.M, c.dir = "f")
                 ELSE IF c.dir = "f" THEN SrgbFwdOK(e.src[i], e.dst[i], c.N, c.M)
                 ELSE SrgbBwdOK(e.src[i], e.dst[i], c.N, c.M)
    IN  IF e.ret # "ok" THEN "error-or-panic"
        ELSE IF \E i \in 1 .. Len(e.src) : ~ok(i) THEN "entry-not-the-transfer-function"
        ELSE "ok"

\* ---- C16 alpha pass-through: component k of pixel p; colour lanes must equal the recorded 1-component
\* table `tab` of the same (mapper, direction, depths), the alpha lane the plain depth conversion
AlphaJudge(e) ==
    LET c == e.echo
        nc == c.nc
        n == Len(e.src) \div nc
        hasA == nc \in {2, 4}
    IN  IF e.ret # "ok" THEN "error-or-panic"
        ELSE IF Len(e.dst) # Len(e.src) THEN "length"
        ELSE IF \E p \in 0 .. n - 1 : \E k \in 1 .. nc :
                  LET x == e.src[p * nc + k]
                      y == e.dst[p * nc + k]
                  IN  IF hasA /\ k = nc THEN y # DepthConv(x, c.from, c.to)
                      ELSE y # tab[x + 1]
        THEN (IF hasA THEN "alpha-or-colour-lane" ELSE "colour-lane")
        ELSE "ok"

Judge(e) ==
    CASE e.echo.kind = "table" -> TableJudge(e)
      [] e.echo.kind = "roundtrip" -> RoundTripJudge(e)
      [] e.echo.kind = "reject" -> RejectJudge(e)
      [] e.echo.kind = "band" -> BandJudge(e)
      [] e.echo.kind = "alpha" -> AlphaJudge(e)
      [] OTHER -> "unknown-kind"

Init == l = 1 /\ nbad = 0 /\ tab = << >>
Step == /\ l <= Len(Rec)
        /\ LET e == Rec[l]
               r == Judge(e)
           IN  /\ IF r = "ok" THEN nbad' = nbad
                  ELSE PrintT(<<"BAD", e.id, r>>) /\ nbad' = nbad + 1
               \* a complete 1-component mapper table becomes the reference for the following multi-component rows
               /\ IF e.echo.kind = "table" /\ "settab" \in DOMAIN e.echo /\ e.ret = "ok" THEN tab' = e.dst ELSE UNCHANGED tab
        /\ l' = l + 1
Finish == /\ l = Len(Rec) + 1
          /\ PrintT(<<"DONE", Len(Rec), nbad>>)
          /\ l' = l + 1
          /\ UNCHANGED <<nbad, tab>>
Next == Step \/ Finish
=============================================================================
