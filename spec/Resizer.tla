------------------------------- MODULE Resizer -------------------------------
(***************************************************************************)
(* The resize pipeline of one `Resizer` object as a state machine over the *)
(* events the implementation emits at its linearisation points (the hook   *)
(* points of src/resizer.rs, guard cfg(fir_verif)):                        *)
(*                                                                         *)
(*   call, zero_noop | crop_err | copy_fast | dispatch,                    *)
(*   nearest | [ss_take, temp, nearest] ,                                  *)
(*   [alpha_take, temp, premul], conv_begin, conv_plan,                    *)
(*   [temp, pass, pass] | pass | (nothing), [divide], ret                  *)
(*                                                                         *)
(* The machine is written functionally -- Ok(s, e) says whether event e is *)
(* a step the specification allows in state s, Upd(s, e) is the successor  *)
(* -- so that the same definitions are explored exhaustively by TLC        *)
(* (MC_Resizer generates the events) and driven by recorded executions     *)
(* (TraceResize feeds the logged events and their logged fields).          *)
(*                                                                         *)
(* State: lengths of the three scratch buffers kept between calls, which   *)
(* of them are moved out of the object, which images are completely        *)
(* written, a provenance term of the destination, and the control state.   *)
(***************************************************************************)
EXTENDS Geometry

CONSTANT NoPassCopies      \* TRUE: the (no horizontal, no vertical) plan copies the source region;
                           \* FALSE: it does nothing (behaviour of the pinned tree, kept as a named deviation)

Bufs == {"alpha", "conv", "ss"}
NoCall == [kind |-> "none"]

InitState == [
    bufs |-> [b \in Bufs |-> 0],   \* byte length of each scratch buffer
    held |-> {},                   \* buffers currently moved out of the object (mem::take)
    pc |-> "idle",
    c |-> NoCall,                  \* arguments of the call in progress
    cur |-> NoCall,                \* image the convolution reads: [img, w, h, box, Q]
    wr |-> {},                     \* images that are completely written: "ss", "premul", "tmp", "dst"
    term |-> << >>,                \* provenance of the destination
    usedAlpha |-> FALSE,
    stale |-> FALSE,               \* some step has read an image that was not completely written
    plan |-> "none",               \* "both" | "h" | "v" | "nopass"
    tmp |-> <<0, 0>>,              \* dimensions of the pending temporary image
    win |-> <<0, 0, 0, 0>>,        \* first/last source column and row the windows use (hf, hl, vf, vl)
    ret |-> "none" ]

(* A call record: kind "ok" | "zero" (zero-area crop or destination) | "badcrop";
   ps = pixel size in bytes, alphaType = the pixel type has an alpha channel,
   u8 = u8 components (vertical pass first), box = crop <<l,t,w,h>> in units 1/Q of the
   sw x sh source, alg in {"nearest","conv","interp","ss"}, m = multiplicity. *)

FullBox(w, h, Q) == <<0, 0, w * Q, h * Q>>
TempNeed(w, h, ps) == (w * h + 1) * ps          \* one extra pixel as alignment gap
NeedH(s) == NeedPass(s.cur.box[1], s.cur.box[3], s.cur.Q, s.c.dw)
NeedV(s) == NeedPass(s.cur.box[2], s.cur.box[4], s.cur.Q, s.c.dh)
IsWritten(s, img) == img = "src" \/ img \in s.wr
WantsAlpha(s) == s.c.useAlpha /\ s.c.alphaType

\* states from which the convolution of the current source may start
\* (the algorithm dispatch and a one-step super-sampling are not separate events)
AtConv(s) ==
    \/ s.pc = "conv"
    \/ (s.pc = "alg" /\ s.c.alg \in {"conv", "interp"})
    \/ (s.pc = "alg" /\ s.c.alg = "ss" /\ SsFactorCmp(s.c.box, s.c.Q, s.c.dw, s.c.dh, s.c.m) <= 0)

(***************************************************************************)
(* Ok(s, e): is event e (a record with field k and the logged fields) a    *)
(* step allowed in state s?                                                *)
(***************************************************************************)
\* the temp event: [w, h, ps, len0, len1, head] against buffer `buf` asked for w x h pixels
TempOK(s, e, buf, w, h) ==
    /\ e.w = w /\ e.h = h /\ e.ps = s.c.ps
    /\ e.len0 = s.bufs[buf]                                   \* nobody touched the buffer since the last call
    /\ e.len1 >= MaxI(e.len0, TempNeed(w, h, s.c.ps))         \* grow only, at least to the needed size (the growth policy is free)
    /\ e.head >= 0 /\ e.head < s.c.ps                          \* alignment gap below one pixel
    /\ e.head + w * h * s.c.ps <= e.len1                       \* the image fits (TempFits)

\* first source index `first` and one-past-last `last` used by the windows of n destination samples
\* over a source of inSize pixels cropped to [a/Q, (a+wq)/Q); ws = logged window size
PlanAxisOK(inSize, a, wq, Q, n, args, ws, first, last) ==
    LET adaptive == args.alg # "interp"
    IN  /\ first >= WinLo(inSize, a, wq, Q, n, args.sn, args.sd, adaptive, 0)
        /\ first < last /\ last <= inSize
        /\ last <= WinHi(inSize, a, wq, Q, n, args.sn, args.sd, adaptive, n - 1)
        \* trimming removes at most the taps outside the open support: the pixel under the first and
        \* under the last centre stay inside
        /\ first <= CenPix(inSize, a, wq, Q, n, 0)
        /\ last > CenPix(inSize, a, wq, Q, n, n - 1)
        \* the allocated window size covers every window (its exact value is an allocation detail)
        /\ ws >= 1

\* the back-end in force in every phase of a call (convolution dispatch, premultiply, divide) is the one selected on the
\* resizer -- also after reset_internal_buffers and on a clone (events and calls that do not carry it: no claim)
BackendOK(s, e) == ("cpu" \in DOMAIN e /\ e.cpu >= 0 /\ "cpu" \in DOMAIN s.c) => e.cpu = s.c.cpu

Ok(s, e) ==
    CASE e.k = "call" -> s.pc = "idle"
      [] e.k = "zero_noop" -> s.pc = "called" /\ s.c.kind = "zero"
      [] e.k = "crop_err" -> s.pc = "called" /\ s.c.kind = "badcrop"
      [] e.k = "copy_fast" -> s.pc = "called" /\ s.c.kind = "ok" /\ IsCopy(s.c.box, s.c.Q, s.c.dw, s.c.dh)
      [] e.k = "dispatch" -> /\ s.pc = "called" /\ s.c.kind = "ok" /\ ~IsCopy(s.c.box, s.c.Q, s.c.dw, s.c.dh)
                             /\ e.alg = s.c.alg /\ (e.alg = "ss" => e.m = s.c.m) /\ e.alpha = s.c.useAlpha
                             /\ BackendOK(s, e)
      [] e.k = "nearest" ->
            \/ (s.pc = "alg" /\ s.c.alg = "nearest" /\ e.sw = s.c.sw /\ e.sh = s.c.sh /\ e.dw = s.c.dw /\ e.dh = s.c.dh)
            \/ (s.pc = "ss2" /\ e.sw = s.c.sw /\ e.sh = s.c.sh /\ e.dw = s.tmp[1] /\ e.dh = s.tmp[2])
      [] e.k = "ss_take" ->
            /\ s.pc = "alg" /\ s.c.alg = "ss"
            /\ SsFactorCmp(s.c.box, s.c.Q, s.c.dw, s.c.dh, s.c.m) >= 0
            /\ e.tw \in SsTmpSet(s.c.box[3], s.c.box, s.c.Q, s.c.dw, s.c.dh, s.c.m)
            /\ e.th \in SsTmpSet(s.c.box[4], s.c.box, s.c.Q, s.c.dw, s.c.dh, s.c.m)
            /\ e.len = s.bufs["ss"]
      [] e.k = "alpha_take" -> AtConv(s) /\ WantsAlpha(s) /\ e.len = s.bufs["alpha"]
      [] e.k = "temp" ->
            \/ (s.pc = "ss1" /\ TempOK(s, e, "ss", s.tmp[1], s.tmp[2]))
            \/ (s.pc = "al1" /\ TempOK(s, e, "alpha", s.cur.w, s.cur.h))
            \* the intermediate image of the two passes holds exactly the columns (rows) the second pass reads
            \/ (s.pc = "planned" /\ s.plan = "both"
                 /\ (IF s.c.u8 THEN TempOK(s, e, "conv", s.win[2] - s.win[1], s.c.dh)
                              ELSE TempOK(s, e, "conv", s.c.dw, s.win[4] - s.win[3])))
      [] e.k = "premul" -> s.pc = "al2" /\ BackendOK(s, e)
      [] e.k = "conv_begin" ->
            /\ (s.pc = "doconv" \/ (AtConv(s) /\ ~WantsAlpha(s)))
            /\ e.cw = s.cur.w /\ e.ch = s.cur.h /\ e.dw = s.c.dw /\ e.dh = s.c.dh
            /\ e.adaptive = (s.c.alg # "interp")
      [] e.k = "conv_plan" ->
            /\ s.pc = "begun" /\ e.h = NeedH(s) /\ e.v = NeedV(s)
            \* the windows of the first and of the last destination sample lie inside the support
            \* (trimmed zero weights may shorten them) and inside the source
            /\ e.h => PlanAxisOK(s.cur.w, s.cur.box[1], s.cur.box[3], s.cur.Q, s.c.dw, s.c, e.hws, e.hf, e.hl)
            /\ e.v => PlanAxisOK(s.cur.h, s.cur.box[2], s.cur.box[4], s.cur.Q, s.c.dh, s.c, e.vws, e.vf, e.vl)
      [] e.k = "pass" ->
            \* axis 0 = horizontal, 1 = vertical; u8: vertical first
            \/ (s.pc = "tmptaken" /\ e.axis = (IF s.c.u8 THEN 1 ELSE 0) /\ e.w = s.tmp[1] /\ e.h = s.tmp[2]
                  /\ e.off = (IF s.c.u8 THEN s.win[1] ELSE s.win[3]))
            \/ (s.pc = "pass1" /\ e.axis = (IF s.c.u8 THEN 0 ELSE 1) /\ e.off = 0 /\ e.w = s.c.dw /\ e.h = s.c.dh)
            \/ (s.pc = "planned" /\ s.plan = "h" /\ e.axis = 0 /\ e.w = s.c.dw /\ e.h = s.c.dh
                  /\ e.off * s.cur.Q = s.cur.box[2])            \* rows start at the (integer) crop top
            \/ (s.pc = "planned" /\ s.plan = "v" /\ e.axis = 1 /\ e.w = s.c.dw /\ e.h = s.c.dh
                  /\ e.off * s.cur.Q = s.cur.box[1])
      [] e.k = "divide" -> s.usedAlpha /\ (s.pc = "passed" \/ (s.pc = "planned" /\ s.plan = "nopass")) /\ BackendOK(s, e)
      [] e.k = "ret" ->
            \/ s.pc = "done"
            \/ (~s.usedAlpha /\ (s.pc = "passed" \/ (s.pc = "planned" /\ s.plan = "nopass")))
            \/ s.pc = "divided"
      [] OTHER -> FALSE

(***************************************************************************)
(* Upd(s, e): the successor state.                                         *)
(***************************************************************************)
Grow(s, buf, len1) == [s.bufs EXCEPT ![buf] = len1]
ReadsFrom(s, img) == s.stale \/ ~IsWritten(s, img)

Upd(s, e) ==
    CASE e.k = "call" ->
            [s EXCEPT !.pc = "called", !.c = e.args,
                      !.cur = [img |-> "src", w |-> e.args.sw, h |-> e.args.sh, box |-> e.args.box, Q |-> e.args.Q],
                      !.wr = {}, !.term = << >>, !.usedAlpha = FALSE, !.stale = FALSE, !.plan = "none",
                      !.tmp = <<0, 0>>, !.ret = "none"]
      [] e.k = "zero_noop" -> [s EXCEPT !.pc = "done", !.ret = "ok"]
      [] e.k = "crop_err" -> [s EXCEPT !.pc = "done", !.ret = "err"]
      [] e.k = "copy_fast" -> [s EXCEPT !.pc = "done", !.ret = "ok", !.wr = @ \cup {"dst"}, !.term = <<"copy">>]
      [] e.k = "dispatch" -> [s EXCEPT !.pc = "alg"]
      [] e.k = "nearest" ->
            IF s.pc = "alg"
            THEN [s EXCEPT !.pc = "done", !.ret = "ok", !.wr = @ \cup {"dst"}, !.term = <<"near">>]
            ELSE \* the intermediate image of a two-step super-sampling: every pixel written
                 [s EXCEPT !.pc = "conv", !.wr = @ \cup {"ss"}, !.term = <<"near">>,
                           !.cur = [img |-> "ss", w |-> s.tmp[1], h |-> s.tmp[2],
                                    box |-> FullBox(s.tmp[1], s.tmp[2], 1), Q |-> 1]]
      [] e.k = "ss_take" -> [s EXCEPT !.pc = "ss1", !.held = @ \cup {"ss"}, !.tmp = <<e.tw, e.th>>]
      [] e.k = "alpha_take" -> [s EXCEPT !.pc = "al1", !.held = @ \cup {"alpha"}]
      [] e.k = "temp" ->
            IF s.pc = "ss1" THEN [s EXCEPT !.pc = "ss2", !.bufs = Grow(s, "ss", e.len1)]
            ELSE IF s.pc = "al1" THEN [s EXCEPT !.pc = "al2", !.bufs = Grow(s, "alpha", e.len1)]
            ELSE [s EXCEPT !.pc = "tmptaken", !.bufs = Grow(s, "conv", e.len1), !.tmp = <<e.w, e.h>>]
      [] e.k = "premul" ->
            [s EXCEPT !.pc = "doconv", !.stale = ReadsFrom(s, s.cur.img), !.wr = @ \cup {"premul"},
                      !.term = Append(@, "mul"), !.cur = [s.cur EXCEPT !.img = "premul"], !.usedAlpha = TRUE]
      [] e.k = "conv_begin" -> [s EXCEPT !.pc = "begun"]
      [] e.k = "conv_plan" ->
            LET p == IF e.h /\ e.v THEN "both" ELSE IF e.h THEN "h" ELSE IF e.v THEN "v" ELSE "nopass"
            IN  IF p = "nopass" /\ NoPassCopies
                THEN [s EXCEPT !.pc = "planned", !.plan = p, !.stale = ReadsFrom(s, s.cur.img),
                               !.wr = @ \cup {"dst"}, !.term = Append(@, "copy")]
                ELSE [s EXCEPT !.pc = "planned", !.plan = p,
                               !.win = <<IF e.h THEN e.hf ELSE 0, IF e.h THEN e.hl ELSE 0,
                                         IF e.v THEN e.vf ELSE 0, IF e.v THEN e.vl ELSE 0>>]
      [] e.k = "pass" ->
            IF s.pc = "tmptaken"
            THEN [s EXCEPT !.pc = "pass1", !.stale = ReadsFrom(s, s.cur.img), !.wr = @ \cup {"tmp"},
                           !.term = Append(@, IF e.axis = 0 THEN "convH" ELSE "convV")]
            ELSE IF s.pc = "pass1"
            THEN [s EXCEPT !.pc = "passed", !.stale = ReadsFrom(s, "tmp"), !.wr = @ \cup {"dst"},
                           !.term = Append(@, IF e.axis = 0 THEN "convH" ELSE "convV")]
            ELSE [s EXCEPT !.pc = "passed", !.stale = ReadsFrom(s, s.cur.img), !.wr = @ \cup {"dst"},
                           !.term = Append(@, IF e.axis = 0 THEN "convH" ELSE "convV")]
      [] e.k = "divide" -> [s EXCEPT !.pc = "divided", !.stale = ReadsFrom(s, "dst"), !.term = Append(@, "div")]
      [] e.k = "ret" ->
            \* all buffers are put back when the call returns
            [s EXCEPT !.pc = "idle", !.held = {}, !.ret = IF s.pc = "done" THEN s.ret ELSE "ok"]
      [] OTHER -> s

\* object-level operations between calls
ResetBufs(s) == [s EXCEPT !.bufs = [b \in Bufs |-> 0]]

-----------------------------------------------------------------------------
(* What the destination must be, as a function of the arguments alone. *)

CanonConv(args, box, Q) ==
    LET nh == NeedPass(box[1], box[3], Q, args.dw)
        nv == NeedPass(box[2], box[4], Q, args.dh)
        passes == IF nh /\ nv THEN (IF args.u8 THEN <<"convV", "convH">> ELSE <<"convH", "convV">>)
                  ELSE IF nh THEN <<"convH">> ELSE IF nv THEN <<"convV">> ELSE <<"copy">>
    IN  IF args.useAlpha /\ args.alphaType THEN <<"mul">> \o passes \o <<"div">> ELSE passes

\* the set of admissible provenance terms (a set because of the exact-tie freedom of super-sampling)
Canon(args) ==
    IF IsCopy(args.box, args.Q, args.dw, args.dh) THEN {<<"copy">>}
    ELSE IF args.alg = "nearest" THEN {<<"near">>}
    ELSE IF args.alg \in {"conv", "interp"} THEN {CanonConv(args, args.box, args.Q)}
    ELSE LET cmp == SsFactorCmp(args.box, args.Q, args.dw, args.dh, args.m)
             one == {CanonConv(args, args.box, args.Q)}
             two == {<<"near">> \o CanonConv(args, FullBox(tw, th, 1), 1) :
                        tw \in SsTmpSet(args.box[3], args.box, args.Q, args.dw, args.dh, args.m),
                        th \in SsTmpSet(args.box[4], args.box, args.Q, args.dw, args.dh, args.m)}
         IN  IF cmp > 0 THEN two ELSE IF cmp < 0 THEN one ELSE one \cup two

-----------------------------------------------------------------------------
(* Properties of a finished call: s is the state after the "ret" event, a the arguments. *)

\* C05: a successful call has assigned every destination pixel; an error or a zero-sized call none
Written(s) ==
    /\ (s.ret = "ok" /\ s.c.kind = "ok") => "dst" \in s.wr
    /\ (s.ret = "err" \/ s.c.kind = "zero") => "dst" \notin s.wr
\* C09: no step read scratch memory that the current call had not written
NoStaleRead(s) == ~s.stale
\* C09: all buffers are back in the object between calls
BuffersHome(s) == s.pc = "idle" => s.held = {}
\* C07 / C09 / C12 / C13: what was computed depends on the arguments only
Canonical(s) == (s.ret = "ok" /\ s.c.kind = "ok") => s.term \in Canon(s.c)
\* documented results only
ResultOK(s) == /\ s.c.kind = "badcrop" => s.ret = "err"
               /\ s.c.kind \in {"ok", "zero"} => s.ret = "ok"
CallOK(s) == Written(s) /\ NoStaleRead(s) /\ BuffersHome(s) /\ Canonical(s) /\ ResultOK(s)

=============================================================================
