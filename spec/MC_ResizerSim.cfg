CONSTANT NoPassCopies = TRUE
CONSTANT NCALLS = 6
CONSTANT SMALL = FALSE
INIT SimInit
NEXT SimNext
INVARIANT Emit
INVARIANT AtReturn
CHECK_DEADLOCK FALSE
