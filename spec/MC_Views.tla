------------------------------ MODULE MC_Views ------------------------------
(* Exhaustive small-scope check of Views!Split: every view inside a parent of
   at most PMAX x PMAX, both axes, all (start, size, parts), and all
   split-of-split compositions. *)
EXTENDS Views, TLC

CONSTANT PMAX

VARIABLES v, a, b, hasb, which
vars == <<v, a, b, hasb, which>>

Args(maxe) == [axis : {"h", "w"}, start : 0 .. maxe, size : 1 .. maxe + 1, parts : 1 .. maxe + 1]

Init == /\ v \in {View(l, t, w, h) : l \in 0 .. PMAX - 1, t \in 0 .. PMAX - 1, w \in 0 .. PMAX, h \in 0 .. PMAX}
        /\ v.l + v.w <= PMAX /\ v.t + v.h <= PMAX
        /\ a \in Args(PMAX)
        /\ b \in Args(PMAX - 1)
        /\ hasb \in BOOLEAN
        /\ which \in 1 .. PMAX
Next == UNCHANGED vars

Inv == /\ SplitTiles(v, a)
       \* None exactly when the arguments are not a band of the view cut into 1..size parts
       /\ (Split(v, a) = << >>) = ~(a.parts <= a.size /\ a.start + a.size <= Extent(v, a.axis))
       \* composition: splitting a part is splitting the parent view at composed offsets
       /\ (SplitDefined(v, a) /\ which <= a.parts /\ hasb) =>
             LET p == Split(v, a)[which]
             IN  /\ SplitTiles(p, b)
                 /\ SplitDefined(p, b) =>
                      /\ Cells(Band(p, b)) \subseteq Cells(Band(v, a))
                      /\ \A j \in 1 .. b.parts : Cells(Split(p, b)[j]) \subseteq Cells(p)
=============================================================================
