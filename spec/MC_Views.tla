------------------------------ MODULE MC_Views ------------------------------
(* Exhaustive small-scope check of Views!Split: every view inside a parent of
   at most PMAX x PMAX, both axes, all (start, size, parts), and all
   split-of-split compositions. *)
EXTENDS Views, TLC

CONSTANT PMAX

VARIABLES v, a, b, hasb, which
vars == <<v, a, b, hasb, which>>

Args(maxe) == [axis : {"h", "w"}, start : 0 .. maxe, size : 1 .. maxe + 1, parts : 1 .. maxe + 1]

Init == /\ v \in {View(l, t, w, h) : l \in 0 .. PMAX - 1, t \in 0 .. PMAX - 1, w \in 0 .. PMAX, h \in 0 .. PMAX}
        /\ v.l + v.w <= PMAX /\ v.t + v.h <= PMAX
        /\ a \in Args(PMAX)
        /\ b \in Args(PMAX - 1)
        /\ hasb \in BOOLEAN
        /\ which \in 1 .. PMAX
Next == UNCHANGED vars
\* model of the row iterators only (MC_Rows.cfg): every view, fixed split arguments
RowsInit == /\ v \in {View(l, t, w, h) : l \in 0 .. PMAX - 1, t \in 0 .. PMAX - 1, w \in 0 .. PMAX, h \in 0 .. PMAX}
            /\ v.l + v.w <= PMAX /\ v.t + v.h <= PMAX
            /\ a = [axis |-> "h", start |-> 0, size |-> 1, parts |-> 1] /\ b = a /\ hasb = FALSE /\ which = 1

\* the row iterators stay inside the view: every row is one row of the view's rectangle, in order, never repeated
TagsOf(rows) == UNION {{rows[i][x] : x \in 1 .. Len(rows[i])} : i \in 1 .. Len(rows)}
CellTags(vv) == {c[2] * 256 + c[1] : c \in Cells(vv)}
RowsInv ==
    \A start \in 0 .. PMAX + 1 :
        /\ TagsOf(RowsFrom(v, start)) \subseteq CellTags(v)
        /\ Len(RowsFrom(v, start)) = MaxI(0, v.h - start)
        /\ (start = 0 /\ v.w > 0 => TagsOf(RowsFrom(v, 0)) = CellTags(v))
        /\ \A n \in {2, 4} : \A max \in 0 .. PMAX + 1 :
              LET gs == RowGroups(v, start, max, n)
              IN  /\ \A g \in 1 .. Len(gs) : Len(gs[g]) = n /\ TagsOf(gs[g]) \subseteq CellTags(v)
                  /\ Len(gs) * n <= MaxI(0, MinI(v.h - start, max))
        /\ \A stepn \in {1, 2, 3, 5} : \A max \in {1, PMAX + 2} :
              LET rs == RowsStep(v, start, stepn, 2, max)
              IN  /\ Len(rs) <= max /\ TagsOf(rs) \subseteq CellTags(v)
                  /\ (v.w > 0 => \A i \in 1 .. Len(rs) - 1 : rs[i][1] <= rs[i + 1][1])

Inv == /\ SplitTiles(v, a)
       \* None exactly when the arguments are not a band of the view cut into 1..size parts
       /\ (Split(v, a) = << >>) = ~(a.parts <= a.size /\ a.start + a.size <= Extent(v, a.axis))
       \* composition: splitting a part is splitting the parent view at composed offsets
       /\ (SplitDefined(v, a) /\ which <= a.parts /\ hasb) =>
             LET p == Split(v, a)[which]
             IN  /\ SplitTiles(p, b)
                 /\ SplitDefined(p, b) =>
                      /\ Cells(Band(p, b)) \subseteq Cells(Band(v, a))
                      /\ \A j \in 1 .. b.parts : Cells(Split(p, b)[j]) \subseteq Cells(p)
=============================================================================
