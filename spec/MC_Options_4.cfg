SPECIFICATION Spec
CONSTANT N = 4
INVARIANT Inv
INVARIANT Emit
CHECK_DEADLOCK FALSE
