------------------------------ MODULE FitJudge ------------------------------
(***************************************************************************)
(* The judgement of one recorded fit-into-destination crop box (exact f64  *)
(* values as dyadic rationals) against the ideal fit-crop of Geometry.     *)
(* Shared by TraceC15 (direct calls and the box used by resize) and        *)
(* TraceOptions (the box in force after a sequence of builder calls).      *)
(***************************************************************************)
EXTENDS Geometry

K == 50      \* relative tolerance 2^-50 (four f64 roundings of slack)

FitJudge(e) ==
    LET c == e.echo
        sw == c.sw  sh == c.sh  dw == c.dw  dh == c.dh
        c1 == Clamp01(c.cx[1], c.cx[2])
        c2 == Clamp01(c.cy[1], c.cy[2])
        lhs == Mul(FromInt(sw), FromInt(dh))          \* sw*dh
        rhs == Mul(FromInt(dw), FromInt(sh))          \* dw*sh
        wider == Le(rhs, lhs)
        equal == lhs = rhs
        fin == \A i \in 1 .. 4 : IsFinite(e.box[i])
        L == DyOf(e.box[1])  T == DyOf(e.box[2])  Wd == DyOf(e.box[3])  Ht == DyOf(e.box[4])
        SW == DyFromInt(sw)  SH == DyFromInt(sh)
        marginX == DySub(SW, Wd)
        marginY == DySub(SH, Ht)
    IN  IF e.ret # "ok" THEN "panic"
        ELSE IF ~fin THEN "non-finite"
        ELSE IF L.s < 0 \/ T.s < 0 \/ Wd.s <= 0 \/ Ht.s <= 0 THEN "negative-or-empty"
        \* inside the source as the library's own validation computes it (f64 sum, round to nearest even),
        \* and never further out than one rounding error of the exact sum
        ELSE IF ~DyLe(DyAddF64(L, Wd), SW) \/ ~DyLe(DyAddF64(T, Ht), SH) THEN "outside-source"
        ELSE IF ~DyWithin(DySub(DyAdd(L, Wd), DyAddF64(L, Wd)), 52, SW) \/ ~DyWithin(DySub(DyAdd(T, Ht), DyAddF64(T, Ht)), 52, SH) THEN "outside-source-beyond-rounding"
        ELSE IF equal /\ ~(L.s = 0 /\ T.s = 0 /\ DyEq(Wd, SW) /\ DyEq(Ht, SH)) THEN "equal-ratio-not-full"
        ELSE IF ~(DyEq(Wd, SW) \/ DyEq(Ht, SH)) THEN "not-full-in-any-dimension"
        ELSE IF wider /\ ~(DyEq(Ht, SH) /\ T.s = 0) THEN "wrong-branch"
        ELSE IF ~wider /\ ~(DyEq(Wd, SW) /\ L.s = 0) THEN "wrong-branch"
        \* aspect: Wd * dh = Ht * dw up to rounding
        ELSE IF ~DyWithin(DySub(DyMulInt(Wd, dh), DyMulInt(Ht, dw)), K, DyMulInt(Ht, dw)) THEN "aspect"
        \* centering: L * q = (sw - Wd) * n up to rounding
        ELSE IF ~DyWithin(DySub(DyMulInt(L, c1[2]), DyMulInt(marginX, c1[1])), K, DyMulInt(marginX, c1[1])) THEN "centering-x"
        ELSE IF ~DyWithin(DySub(DyMulInt(T, c2[2]), DyMulInt(marginY, c2[1])), K, DyMulInt(marginY, c2[1])) THEN "centering-y"
        ELSE "ok"

=============================================================================
