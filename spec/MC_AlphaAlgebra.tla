--------------------------- MODULE MC_AlphaAlgebra ---------------------------
(* The algebra behind C07 on a tiny domain, exhaustively: 1-D images of N pixels with one colour
   and one alpha component (values 0..MAXV, MAXV = opaque), two destination samples with weight
   vectors drawn from a small signed set with sum DEN.  Premultiply uses the exact rounding
   of Alpha!MulExact, divide any admissible result of Alpha!DivAllowed.
     T1  colours under alpha = 0 do not influence any destination sample
     T2  resampled alpha = 0 implies colour 0
     T3  if every alpha is MAXV, alpha-aware resizing equals plain resizing
     T4  the alpha lane is the plain convolution of the alpha plane *)
EXTENDS Alpha, TLC
CONSTANTS N, MAXV, DEN
VARIABLES col, alp, col2, w
vars == <<col, alp, col2, w>>
Vals == 0 .. MAXV
Weights == {ws \in [1 .. N -> -1 .. DEN + 1] : ws[1] + ws[2] + (IF N > 2 THEN ws[3] ELSE 0) = DEN}
Init == /\ col \in [1 .. N -> Vals] /\ alp \in [1 .. N -> Vals] /\ col2 \in [1 .. N -> Vals]
        /\ \A i \in 1 .. N : alp[i] # 0 => col2[i] = col[i]        \* col2 differs only under alpha = 0
        /\ w \in Weights
Next == UNCHANGED vars

Sum3(f) == f[1] + f[2] + (IF N > 2 THEN f[3] ELSE 0)
Clamp(x) == IF x < 0 THEN 0 ELSE IF x > MAXV THEN MAXV ELSE x
\* rounded, clamped convolution of a plane with weights w / DEN
Conv(plane) == Clamp((2 * Sum3([i \in 1 .. N |-> w[i] * plane[i]]) + DEN) \div (2 * DEN))
Premul(c) == [i \in 1 .. N |-> MulExact(c[i], alp[i], MAXV)]
ResultSet(c) == DivAllowed(Conv(Premul(c)), Conv(alp), MAXV)

T1 == Premul(col) = Premul(col2) /\ ResultSet(col) = ResultSet(col2)
T2 == Conv(alp) = 0 => ResultSet(col) = {0}
T3 == (\A i \in 1 .. N : alp[i] = MAXV) => ResultSet(col) = {Conv(col)}
T4 == (\A i \in 1 .. N : alp[i] = MAXV) => Conv(alp) = MAXV      \* weights sum to DEN: partition of unity
Inv == T1 /\ T2 /\ T3 /\ T4
=============================================================================
