INIT Init
NEXT Next
INVARIANT ViewInv
INVARIANT CropInv
CHECK_DEADLOCK FALSE
