------------------------------ MODULE Threading ------------------------------
(***************************************************************************)
(* Band splitting of one parallel operation (rayon feature).               *)
(*                                                                         *)
(* An operation over a destination of w x h pixels is cut along `axis`     *)
(* ("h": bands of rows, "v": bands of columns) into                        *)
(*      parts = min(threads, MaxParts(axis, w, h))                         *)
(* bands when threads > 1 and MaxParts > 1 (otherwise it runs             *)
(* sequentially); workers take bands in any order (work stealing), each    *)
(* band is processed exactly once, and the operation joins when all bands  *)
(* are done.  Written functionally over the implementation's events        *)
(* (split_plan, split_bands, band_begin, band_end) like Resizer.           *)
(***************************************************************************)
EXTENDS Views

\* minimal extent of one band: (2^14 / area) for small images, extent / 256 for long ones,
\* area = extent * max(w, h) -- over unbounded integers (no overflow)
AreaQuot(ext, m) == IF ext > 16384 \/ m > 16384 THEN 0 ELSE 16384 \div (ext * m)
MaxParts(axis, w, h) ==
    IF w = 0 \/ h = 0 THEN 1
    ELSE LET ext == IF axis = "h" THEN h ELSE w
             minExt == MaxI(AreaQuot(ext, MaxI(w, h)), ext \div 256)
         IN  ext \div MaxI(minExt, 1)

PartsFor(axis, w, h, threads) ==
    LET mp == MaxParts(axis, w, h)
    IN  IF threads > 1 /\ mp > 1 THEN MinI(threads, mp) ELSE 0          \* 0 = sequential

BandSizes(ext, parts) == [i \in 1 .. parts |-> BandLen(ext, parts, i)]

ThrInit == [pc |-> "idle", axis |-> "h", w |-> 0, h |-> 0, parts |-> 0, open |-> << >>, begun |-> << >>, done |-> 0]

\* multiset bookkeeping over band sizes: `open` = sizes not yet taken, `begun` = sizes being processed
RemoveOne(seq, x) == LET i == CHOOSE j \in 1 .. Len(seq) : seq[j] = x
                     IN  SubSeq(seq, 1, i - 1) \o SubSeq(seq, i + 1, Len(seq))
Contains(seq, x) == \E j \in 1 .. Len(seq) : seq[j] = x

ThrOk(s, e) ==
    CASE e.k = "split_plan" ->
            /\ s.pc \in {"idle", "planned"}                       \* a plan that did not split is simply followed by the next one
            /\ e.maxp = MaxParts(e.axis, e.w, e.h)                 \* the band count of the specification (no wrap-around)
            \* (0 for tiny images: the operation then runs sequentially); never more bands than lines
            /\ e.maxp >= 0 /\ e.maxp <= (IF e.axis = "h" THEN e.h ELSE e.w)
      [] e.k = "split_bands" ->
            /\ s.pc = "planned" /\ s.parts > 0
            /\ e.sizes = BandSizes(IF s.axis = "h" THEN s.h ELSE s.w, s.parts)
      [] e.k = "band_begin" ->
            /\ s.pc = "running"
            /\ Contains(s.open, IF s.axis = "h" THEN e.h ELSE e.w)
            /\ (IF s.axis = "h" THEN e.w = s.w ELSE e.h = s.h)
      [] e.k = "band_end" ->
            /\ s.pc = "running"
            /\ Contains(s.begun, IF s.axis = "h" THEN e.h ELSE e.w)
      [] OTHER -> FALSE

ThrUpd(s, e) ==
    CASE e.k = "split_plan" ->
            [pc |-> "planned", axis |-> e.axis, w |-> e.w, h |-> e.h,
             parts |-> PartsFor(e.axis, e.w, e.h, e.threads), open |-> << >>, begun |-> << >>, done |-> 0]
      [] e.k = "split_bands" -> [s EXCEPT !.pc = "running", !.open = e.sizes]
      [] e.k = "band_begin" ->
            LET x == IF s.axis = "h" THEN e.h ELSE e.w
            IN  [s EXCEPT !.open = RemoveOne(s.open, x), !.begun = Append(s.begun, x)]
      [] e.k = "band_end" ->
            LET x == IF s.axis = "h" THEN e.h ELSE e.w
                s1 == [s EXCEPT !.begun = RemoveOne(s.begun, x), !.done = s.done + 1]
            IN  IF s1.done = s1.parts THEN [s1 EXCEPT !.pc = "idle"] ELSE s1
      [] OTHER -> s

\* the operation may be left only when nothing is outstanding
ThrQuiescent(s) == s.pc \in {"idle", "planned"} /\ (s.pc = "planned" => s.parts = 0 \/ TRUE)
ThrJoined(s) == s.pc # "running"
=============================================================================
