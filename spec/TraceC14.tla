------------------------------ MODULE TraceC14 ------------------------------
(***************************************************************************)
(* Trace validation for C14: every recorded split_by_height/width(_mut)    *)
(* call (and split of a part) must have returned what Views!Split says,    *)
(* each part exposing exactly the tags of its band; marks written through  *)
(* the mutable parts must land in exactly the band's cells of the parent.  *)
(***************************************************************************)
EXTENDS Views, TLC, Json, IOUtils

Rec == ndJsonDeserialize(IOEnv.TRACE)

VARIABLES l, nbad
vars == <<l, nbad>>

\* observed part o (record w, h, rows) against expected view x
PartOK(o, x) ==
    /\ o.w = x.w /\ o.h = x.h
    /\ IF x.w = 0 \/ x.h = 0
       THEN \A i \in 1 .. Len(o.rows) : Len(o.rows[i]) = 0
       ELSE o.rows = Rows(x)

PartsOK(obs, exp) ==
    /\ Len(obs) = Len(exp)
    /\ \A i \in 1 .. Len(exp) : PartOK(obs[i], exp[i])

InView(x, y, p) == x >= p.l /\ x < p.l + p.w /\ y >= p.t /\ y < p.t + p.h

\* expected content of parent cell (x, y) after the marks were written
ExpCell(x, y, exp, hasb, sub, which) ==
    LET subDefined == hasb /\ which <= Len(exp) /\ Len(sub) > 0
        hitSub == {j \in 1 .. Len(sub) : subDefined /\ InView(x, y, sub[j])}
        hitTop == {i \in 1 .. Len(exp) : InView(x, y, exp[i]) /\ ~(subDefined /\ i = which)}
    IN  IF hitSub # {} THEN 60000 + (CHOOSE j \in hitSub : TRUE) - 1
        ELSE IF hitTop # {} THEN 50000 + (CHOOSE i \in hitTop : TRUE) - 1
        ELSE y * 256 + x

Judge(e) ==
    LET c == e.echo
        v == View(c.al, c.at, c.w, c.h)
        exp == Split(v, c.a)
        hasb == c.hasb = 1
        which == IF hasb THEN c.b.which ELSE 0
        sub == IF hasb /\ which <= Len(exp) THEN Split(exp[which], c.b) ELSE << >>
    IN  IF e.ret # "ok" THEN "panic-or-crash"
        ELSE IF ~PartsOK(e.parts, exp) THEN "parts"
        ELSE IF hasb /\ which <= Len(exp) /\ ~PartsOK(e.parts[which].sub, sub) THEN "split-of-split"
        ELSE IF c.mut = 1 /\ \E y \in 0 .. c.ph - 1 : \E x \in 0 .. c.pw - 1 :
                      e.parent[y * c.pw + x + 1] # ExpCell(x, y, exp, hasb, sub, which) THEN "write-through"
        ELSE IF c.mut = 0 /\ \E y \in 0 .. c.ph - 1 : \E x \in 0 .. c.pw - 1 :
                      e.parent[y * c.pw + x + 1] # y * 256 + x THEN "parent-modified"
        ELSE "ok"

Init == l = 1 /\ nbad = 0
Step == /\ l <= Len(Rec)
        /\ LET e == Rec[l]
               r == Judge(e)
           IN  IF r = "ok" THEN nbad' = nbad
               ELSE PrintT(<<"BAD", e.id, r>>) /\ nbad' = nbad + 1
        /\ l' = l + 1
Finish == /\ l = Len(Rec) + 1
          /\ PrintT(<<"DONE", Len(Rec), nbad>>)
          /\ l' = l + 1
          /\ UNCHANGED nbad
Next == Step \/ Finish
=============================================================================
