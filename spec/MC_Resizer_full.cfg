CONSTANT NoPassCopies = TRUE
CONSTANT NCALLS = 2
CONSTANT SMALL = FALSE
SPECIFICATION MCSpec
INVARIANT AtReturn
INVARIANT Progress
INVARIANT HeldOnlyInCall
PROPERTY BufMonotone
CHECK_DEADLOCK FALSE
