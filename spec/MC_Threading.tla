----------------------------- MODULE MC_Threading -----------------------------
(* All interleavings of band workers for one parallel two-image operation at small scope:
   the destination (w x h cells) is cut into bands; any idle worker may take any untaken band
   (work stealing = full nondeterminism), writes its cells one row (column) at a time, finishes;
   the operation joins when all bands are done.  Each destination cell holds the *set* of
   writers, so aliasing is visible.  The source band of destination band i is the source region
   with the same offset (src_offset folded into the split). *)
EXTENDS Threading, TLC
CONSTANTS WMAX, HMAX, TMAX

VARIABLES w, h, axis, threads, srcOff, plan, owner, prog, writers, reads
vars == <<w, h, axis, threads, srcOff, plan, owner, prog, writers, reads>>

Workers == 1 .. TMAX
\* the band-count rule scaled down so that small images split: parts = min(threads, extent)
Ext == IF axis = "h" THEN h ELSE w
Parts == IF threads > 1 /\ Ext > 1 THEN MinI(threads, Ext) ELSE 1

Init == /\ w \in 1 .. WMAX /\ h \in 1 .. HMAX /\ axis \in {"h", "v"} /\ threads \in 1 .. TMAX /\ srcOff \in 0 .. 2
        /\ plan = << >> /\ owner = << >> /\ prog = << >>
        /\ writers = [c \in (0 .. WMAX - 1) \X (0 .. HMAX - 1) |-> {}]
        /\ reads = {}

MakePlan == /\ plan = << >>
            /\ LET v == View(0, 0, w, h)
                   a == [axis |-> axis, start |-> 0, size |-> Ext, parts |-> Parts]
               IN  plan' = Split(v, a)
            /\ owner' = [i \in 1 .. Parts |-> 0]
            /\ prog' = [i \in 1 .. Parts |-> 0]
            /\ UNCHANGED <<w, h, axis, threads, srcOff, writers, reads>>

Take(wk, b) == /\ plan # << >> /\ b \in 1 .. Len(plan) /\ owner[b] = 0
               /\ \A b2 \in 1 .. Len(plan) : owner[b2] # wk \/ prog[b2] = Extent(plan[b2], axis)   \* the worker is idle
               /\ owner' = [owner EXCEPT ![b] = wk]
               /\ UNCHANGED <<w, h, axis, threads, srcOff, plan, prog, writers, reads>>

\* one step of a worker: write the next row (column) of its band and read the source line with the same offset
WriteLine(wk, b) ==
    /\ plan # << >> /\ b \in 1 .. Len(plan) /\ owner[b] = wk /\ prog[b] < Extent(plan[b], axis)
    /\ LET p == plan[b]
           k == prog[b]
           cells == IF axis = "h" THEN {<<x, p.t + k>> : x \in p.l .. p.l + p.w - 1}
                                  ELSE {<<p.l + k, y>> : y \in p.t .. p.t + p.h - 1}
           srcLine == (IF axis = "h" THEN p.t ELSE p.l) + k + srcOff
       IN  /\ writers' = [c \in DOMAIN writers |-> IF c \in cells THEN writers[c] \cup {b} ELSE writers[c]]
           /\ reads' = reads \cup {<<(IF axis = "h" THEN p.t ELSE p.l) + k, srcLine>>}
    /\ prog' = [prog EXCEPT ![b] = @ + 1]
    /\ UNCHANGED <<w, h, axis, threads, srcOff, plan, owner>>

Next == MakePlan \/ \E wk \in Workers : \E b \in 1 .. TMAX : Take(wk, b) \/ WriteLine(wk, b)

AllDone == plan # << >> /\ \A b \in 1 .. Len(plan) : prog[b] = Extent(plan[b], axis)
InImage(c) == c[1] < w /\ c[2] < h
Inv ==
    \* no cell is ever written by two bands, nothing outside the image is written
    /\ \A c \in DOMAIN writers : Cardinality(writers[c]) <= 1 /\ (~InImage(c) => writers[c] = {})
    \* at the join every cell of the destination has been written exactly once
    /\ AllDone => \A c \in DOMAIN writers : InImage(c) => Cardinality(writers[c]) = 1
    \* destination line d always reads source line d + srcOff: exactly what the sequential run reads
    /\ \A r \in reads : r[2] = r[1] + srcOff
    /\ (plan # << >> => Len(plan) = Parts /\ Parts >= 1 /\ Parts <= Ext)
Terminates == <>AllDone
Spec == Init /\ [][Next]_vars /\ WF_vars(Next)
=============================================================================
